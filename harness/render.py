"""Concrete syntax of compiler output for chunk streams (trusted base of C14 / C15): javac, kotlinc, groovyc, scalac 3.
Formats follow DESIGN.md Appendix D (javac verified against real javac 17 output in the thorough tier of C14)."""
import re

ROOT = "/tmp/tmpab3_x9kq/src"
WORDS = ["words", "another", "java", "error", "kt", "scala"]
EXT = {"java": "Main.java", "kotlin": "program.kt", "groovy": "Main.groovy", "scala": "Main.scala"}
MSG = {
    1: "MSG1 incompatible types: Foo cannot be converted to Baz",
    2: "MSG2 cannot find symbol",
    3: "MSG3 KNOWNISSUE unreachable statement",
    4: "MSG4 incompatible types: Map<String,? extends List<Foo>> cannot be converted to 'Bar': expected (x) => y",
    # ordinary diagnostics may mention class names of the platform, also those of errors a crashing compiler would throw
    5: "MSG5 incompatible types: java.lang.Object cannot be converted to Thread (see java.lang.StackOverflowError)",
    6: "MSG6 OTHERISSUE variable might not have been initialized",
}
DETAIL = {2: "  symbol:   variable bar\n  location: class Main\n"}
# the user-supplied filters: per compiler, patterns that match a whole diagnostic carrying a known-issue marker
# (two patterns, applied in this order: KNOWNISSUE first, OTHERISSUE second)
def filters(lang):
    return [FILTER[lang], FILTER[lang].replace("KNOWNISSUE", "OTHERISSUE")]


FILTER = {
    "java": r"[^\n]*KNOWNISSUE[^\n]*\n(?:[ \t][^\n]*\n)*",
    "kotlin": r"[^\n]*KNOWNISSUE[^\n]*\n(?:[ \t][^\n]*\n)*",
    "groovy": r"[^\n]*KNOWNISSUE[^\n]*\n(?:[^\n]+\n)*\n",
    "scala": r"-- [^\n]*Error: [^\n]*\n(?:(?!-- )[^\n]*\n)*?[^\n]*KNOWNISSUE[^\n]*\n(?:(?!-- )[^\n]*\n)*",
}


def path(lang, f, root=ROOT):
    return "%s/%s/%s" % (root, WORDS[f - 1], EXT[lang])


def render(lang, cs, root=ROOT):
    out = []
    nerr = sum(1 for c in cs if c["k"] == "err")
    if lang == "groovy" and nerr:
        out.append("org.codehaus.groovy.control.MultipleCompilationErrorsException: startup failed:\n")
    for c in cs:
        k = c["k"]
        p = path(lang, c["f"], root) if c["f"] else ""
        m = MSG.get(c["m"], "")
        if lang == "java":
            if k == "err":
                out.append("%s:12: error: %s\n        Foo x = bar;\n                ^\n%s" % (p, m, DETAIL.get(c["m"], "")))
            elif k == "warn":
                out.append("%s:7: warning: [removal] Long(long) in Long has been deprecated and marked for removal\n        new Long(5);\n        ^\n" % p)
            elif k == "note":
                out.append("Note: Some input files use unchecked or unsafe operations.\nNote: Recompile with -Xlint:unchecked for details.\n")
            elif k == "summary":
                out.append("%d error%s\n1 warning\n" % (max(nerr, 1), "" if nerr == 1 else "s"))
            elif k == "crash" and c["m"] == 1:
                out.append("Exception in thread \"main\" java.lang.StackOverflowError\n"
                           "\tat jdk.compiler/com.sun.tools.javac.code.Types$SubstFcn.visitTypeVar(Types.java:3194)\n"
                           "\tat jdk.compiler/com.sun.tools.javac.code.Types$SubstFcn.visitTypeVar(Types.java:3172)\n")
            elif k == "crash" and c["m"] == 2:
                out.append("An exception has occurred in the compiler (17.0.9). Please file a bug against the Java compiler.\n"
                           "com.sun.tools.javac.util.ClientCodeException: java.lang.IllegalStateException: endPosTable already set\n"
                           "\tat jdk.compiler/com.sun.tools.javac.api.ClientCodeWrapper$WrappedJavaFileManager.getJavaFileForOutput(ClientCodeWrapper.java:235)\n")
            elif k == "crash":
                out.append("An exception has occurred in the compiler (17.0.9). Please file a bug against the Java compiler.\n"
                           "java.lang.NullPointerException: Cannot invoke \"com.sun.tools.javac.code.Type.getTag()\"\n"
                           "\tat jdk.compiler/com.sun.tools.javac.comp.Attr.visitApply(Attr.java:2229)\n"
                           "\tat jdk.compiler/com.sun.tools.javac.tree.JCTree$JCMethodInvocation.accept(JCTree.java:1797)\n")
        elif lang == "kotlin":
            if k == "err":
                out.append("%s:12:9: error: %s\n        val x: Foo = bar\n                     ^\n" % (p, m.replace("\n", " ")))
            elif k == "warn":
                out.append("%s:7:5: warning: variable 'x' is never used\n    val x = 1\n        ^\n" % p)
            elif k == "note":
                out.append("warning: some JAR files in the classpath have the Kotlin Runtime library bundled into them\n")
            elif k == "summary":
                out.append("")
            elif k == "crash":
                out.append("exception: org.jetbrains.kotlin.backend.common.BackendException: Backend Internal error: Exception during IR lowering\n"
                           "\tat org.jetbrains.kotlin.backend.common.CodegenUtil.reportBackendException(CodegenUtil.kt:239)\n")
        elif lang == "groovy":
            if k == "err":
                out.append("%s: 18: [Static type checking] - %s\n @ line 18, column 5.\n       gurgling\n       ^\n\n" % (p, m))
            elif k == "warn":
                out.append("warning: unused import in unit %s\n\n" % WORDS[c["f"] - 1])
            elif k == "note":
                out.append("")
            elif k == "summary":
                out.append("%d error%s\n" % (max(nerr, 1), "" if nerr == 1 else "s"))
            elif k == "crash":
                out.append(">>> a serious error occurred: BUG! exception in phase 'instruction selection' in source unit\n>>> stacktrace:\n"
                           "BUG! exception in phase 'instruction selection'\n"
                           "\tat org.codehaus.groovy.control.CompilationUnit.doPhaseOperation(CompilationUnit.java:905)\n")
        elif lang == "scala":
            if k == "err":
                # scalac 3 prints an error id for most diagnostics ("-- [E007] Type Mismatch Error: f:l:c ---") and none for others ("-- Error: f:l:c ---")
                head = "-- [E007] Type Mismatch Error:" if c["m"] % 2 else "-- Error:"
                out.append("%s %s:3:17 --------------------\n3 |  val x: Int = bar\n  |               ^^^\n  |               %s\n"
                           % (head, p, m.replace("-", " ")))
            elif k == "warn":
                out.append("-- Warning: %s:5:2 ----------------\n5 |  foo\n  |  ^\n  |  A pure expression does nothing in statement position\n" % p)
            elif k == "note":
                out.append("")
            elif k == "summary":
                out.append("%d error%s found\n" % (max(nerr, 1), "" if nerr == 1 else "s"))
            elif k == "crash":
                out.append("Exception in thread \"main\" java.lang.AssertionError: assertion failed: denotation of type T\n"
                           "\tat dotty.tools.dotc.core.Types$TypeRef.denot(Types.scala:2389)\n")
    return "".join(out)


TOKEN = re.compile(r"MSG(\d)")


def tokens(msg):
    """message ids mentioned in a returned message (dumb token extraction)"""
    out = []
    for x in TOKEN.findall(msg):
        if int(x) not in out:       # a message may mention its marker type more than once
            out.append(int(x))
    return out
