"""EV for C07: the instantiations (TypeConstructor.new) and substitutions (substitute_type) the generator and the mutations
actually issue.  Each recorded call becomes a short history in the format of HTypeHeapTrace (a `given` step introducing the
term, then the operation), with the result, its transitive supertypes and the before/after snapshots of every object handed
to the call; the class table is the one of the finished program, so supertypes are compared by inclusion (`ev`: a type made
while its class was still being built carries a shorter supertype list)."""
import hashlib
import json
import sys

import genlib

PER_PROGRAM = 250


def main():
    lang, sw, seeds, out = sys.argv[1], json.loads(sys.argv[2]), json.loads(sys.argv[3]), sys.argv[4]
    genlib.setup(lang, dis_use=sw["disUse"], dis_contra=sw["disContra"], no_bounds=sw["noBounds"], no_param_fn=sw["noParamFn"])
    import hlib
    import pser
    from src.ir import types as tp
    rec = {"depth": 0, "cases": [], "seen": set(), "dropped": 0, "n": {"new": 0, "subst": 0}}

    def dig(o):
        return hashlib.sha1(json.dumps(hlib.snapshot(o), default=str).encode()).hexdigest()[:10]

    def type_vars_in(t, acc):
        if isinstance(t, tp.TypeParameter):
            acc.setdefault(t.name, t)
            if t.bound is not None:
                type_vars_in(t.bound, acc)
        elif isinstance(t, tp.WildCardType) and t.bound is not None:
            type_vars_in(t.bound, acc)
        elif isinstance(t, tp.ParameterizedType):
            for a in t.type_args:
                type_vars_in(a, acc)
        return acc

    def step(op, c, args, r, sigma, res, tracked, before, eq=True):
        after = [dig(x) for x in tracked]
        tv = type_vars_in(res, {}) if res is not None else {}
        return {"op": op, "c": c, "args": args, "r": r, "r2": 0, "sigma": sigma, "exc": "", "answer": [],
                "res": [hlib.ser(res)] if res is not None else [],
                "supers": [hlib.ser(s) for s in res.get_supertypes()] if res is not None and op != "given" else [],
                "vv": sorted([n, hlib.VNAME[v.variance.value]] for n, v in tv.items()), "eq": eq,
                "changed": [i + 1 for i, (a, b) in enumerate(zip(before, after)) if a != b], "tracked": len(before)}

    def want(kind, key):
        if rec["depth"] or rec["n"][kind] >= PER_PROGRAM:
            return False
        if key in rec["seen"]:
            return False
        rec["seen"].add(key)
        rec["n"][kind] += 1
        return True

    orig_new = tp.TypeConstructor.new

    def new(self, type_args):
        try:
            key = "new" + json.dumps([hlib.cname(self), [hlib.ser(a) for a in type_args]], sort_keys=True)
            ok = want("new", key)
        except Exception:  # noqa: BLE001
            ok = False
        if not ok:
            return orig_new(self, type_args)
        tracked = [self] + list(type_args)
        before = [dig(x) for x in tracked]
        rec["depth"] += 1
        try:
            r = orig_new(self, type_args)
        finally:
            rec["depth"] -= 1
        try:
            rec["cases"].append({"steps": [step("new", hlib.cname(self), [hlib.ser(a) for a in type_args], 0, {}, r, tracked, before)]})
        except Exception:  # noqa: BLE001
            rec["dropped"] += 1
        return r
    tp.TypeConstructor.new = new

    orig_subst = tp.substitute_type

    def subst(t, type_map):
        try:
            names = [k.name for k in type_map]
            ok = (len(set(names)) == len(names) and all(isinstance(k, tp.TypeParameter) for k in type_map)
                  and want("subst", "subst" + json.dumps([hlib.ser(t), {k.name: hlib.ser(v) for k, v in type_map.items()}], sort_keys=True)))
            # a variable of t with the name of a key but another identity would make the by-name reading ambiguous
            if ok:
                tvs = type_vars_in(t, {})
                ok = all(tvs[k.name] == k for k in type_map if k.name in tvs)
        except Exception:  # noqa: BLE001
            ok = False
        if not ok:
            return orig_subst(t, type_map)
        tracked = [t] + list(type_map.values())
        before = [dig(x) for x in tracked]
        rec["depth"] += 1
        try:
            r = orig_subst(t, type_map)
        finally:
            rec["depth"] -= 1
        try:
            sigma = {k.name: hlib.ser(v) for k, v in type_map.items() if k.name in type_vars_in(t, {})}
            g = step("given", "", [hlib.ser(t)], 0, {}, t, [], [])
            rec["cases"].append({"steps": [g, step("subst", "", [], 1, sigma, r, tracked, before, eq=bool(r == t))]})
        except Exception:  # noqa: BLE001
            rec["dropped"] += 1
        return r
    tp.substitute_type = subst

    def work():
        cases = []
        swn = "".join("1" if sw[k] else "0" for k in ("disUse", "disContra", "noBounds", "noParamFn"))
        for seed in seeds:
            rec.update(depth=0, cases=[], seen=set(), dropped=0, n={"new": 0, "subst": 0})
            try:
                p = genlib.generate(seed)
                e, _ = genlib.erase(p, seed)
                genlib.overwrite(e, seed + 2)
            except Exception:  # noqa: BLE001   (C18's business)
                continue
            rec["depth"] = 1      # nothing below is an event
            ct = {c: {"tp": v["tp"], "sup": v["sup"]} for c, v in pser.ser_program(p, maxfun=6, walk=False)["ct"].items()}
            for i, cs in enumerate(rec["cases"]):
                cs.update(id="%s/%s/%d#%d" % (lang, swn, seed, i), lang=lang, ct=ct, ev=True)
                cases.append(cs)
        return cases
    cases = genlib.in_big_stack(work)
    json.dump({"cases": cases}, open(out, "w"), separators=(",", ":"))
    print(json.dumps([out]))


main()
