"""E step for HArgs: run the real argparse parser + validate_args of src/args.py on every configuration of the decision table."""
import json
import os
import shutil
import sys
import tempfile

MSG = {
    "you should only set --seconds or --iterations": "seconds_and_iterations",
    "already exists": "name_exists",
    "mutually exclusive": "schedule_and_transformations",
    "You have to provide one of --transformation-schedule": "neither_schedule_nor_transformations",
    "You have to provide a valid file": "schedule_not_a_file",
    "You cannot use -r option in parallel mode": "rerun_in_parallel",
    "The -r option only works with the option -k": "rerun_needs_keep_all",
    "You cannot use -r option with the option --batch": "rerun_with_batch",
    "You cannot use --examine option without the --replay": "examine_needs_replay",
}
TRI = {"zero": "0", "pos": "2"}


def argv_of(c, tmp):
    bugs = os.path.join(tmp, "bugs")
    argv = ["--bugs", bugs, "--name", "taken" if c["name_exists"] else "fresh", "--language", "kotlin"]
    if c["seconds"]:
        argv += ["--seconds", "5"]
    if c["iterations"]:
        argv += ["--iterations", "3"]
    if c["schedule"] == "file":
        argv += ["--transformation-schedule", os.path.join(tmp, "sched.txt")]
    elif c["schedule"] == "missing":
        argv += ["--transformation-schedule", os.path.join(tmp, "no_such_file")]
    if c["transformations"] != "absent":
        argv += ["--transformations", TRI[c["transformations"]]]
    if c["rerun"]:
        argv += ["--rerun"]
    if c["workers"]:
        argv += ["--workers", "2"]
    if c["keep_all"]:
        argv += ["--keep-all"]
    if c["batch"] != "absent":
        argv += ["--batch", TRI[c["batch"]]]
    if c["examine"]:
        argv += ["--examine"]
    if c["replay"]:
        argv += ["--replay", os.path.join(tmp, "x.bin")]
    return argv


def main():
    inp, out = sys.argv[1], sys.argv[2]
    cfgs = json.load(open(inp))
    tmp = tempfile.mkdtemp(prefix="hargs")
    os.makedirs(os.path.join(tmp, "bugs", "taken"))
    open(os.path.join(tmp, "sched.txt"), "w").write("TypeErasure\n")
    sys.argv = ["hephaestus.py", "--bugs", os.path.join(tmp, "bugs"), "--name", "import", "--language", "kotlin"]
    import src.args as A
    runs = []
    for c in cfgs:
        try:
            ns = A.parser.parse_args(argv_of(c, tmp))
            A.validate_args(ns)
            o = "ok"
        except SystemExit as e:
            msg = str(e.code)
            o = next((v for k, v in MSG.items() if k in msg), "other:" + msg[-120:])
        except Exception as e:  # noqa: BLE001
            o = "exception:%s" % type(e).__name__
        runs.append({"config": c, "outcome": o})
    shutil.rmtree(tmp, ignore_errors=True)
    json.dump({"runs": runs}, open(out, "w"))
    print(json.dumps([out]))


main()
