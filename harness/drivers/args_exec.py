"""E step for HArgs: run the real validate_args on every configuration of the decision table (one subprocess each: src.args parses
argv at import)."""
import json
import os
import subprocess
import sys
import tempfile

MSG = {
    "you should only set --seconds or --iterations": "seconds_and_iterations",
    "already exists": "name_exists",
    "mutually exclusive": "schedule_and_transformations",
    "You have to provide one of --transformation-schedule": "neither_schedule_nor_transformations",
    "You have to provide a valid file": "schedule_not_a_file",
    "You cannot use -r option in parallel mode": "rerun_in_parallel",
    "The -r option only works with the option -k": "rerun_needs_keep_all",
    "You cannot use -r option with the option --batch": "rerun_with_batch",
    "You cannot use --examine option without the --replay": "examine_needs_replay",
}
CODE = "import sys\nfrom src.args import args, validate_args\nvalidate_args(args)\nprint('VALID')\n"


def run(c, tmp):
    bugs = os.path.join(tmp, "bugs")
    os.makedirs(os.path.join(bugs, "taken"), exist_ok=True)
    sched = os.path.join(tmp, "sched.txt")
    open(sched, "w").write("TypeErasure\n")
    argv = ["--bugs", bugs, "--name", "taken" if c["name_exists"] else "fresh", "--language", "kotlin"]
    if c["seconds"]:
        argv += ["--seconds", "5"]
    if c["iterations"]:
        argv += ["--iterations", "3"]
    if c["schedule"] == "file":
        argv += ["--transformation-schedule", sched]
    elif c["schedule"] == "missing":
        argv += ["--transformation-schedule", os.path.join(tmp, "no_such_file")]
    if c["transformations"]:
        argv += ["--transformations", "1"]
    if c["rerun"]:
        argv += ["--rerun"]
    if c["workers"]:
        argv += ["--workers", "2"]
    if c["keep_all"]:
        argv += ["--keep-all"]
    if c["batch"]:
        argv += ["--batch", "2"]
    if c["examine"]:
        argv += ["--examine"]
    if c["replay"]:
        argv += ["--replay", os.path.join(tmp, "x.bin")]
    p = subprocess.run([sys.executable, "-c", CODE] + argv, stdout=subprocess.PIPE, stderr=subprocess.STDOUT, text=True, cwd=tmp)
    out = p.stdout
    if "VALID" in out:
        return "ok"
    for k, v in MSG.items():
        if k in out:
            return v
    return "other:" + out.strip()[-120:]


def main():
    inp, out = sys.argv[1], sys.argv[2]
    cfgs = json.load(open(inp))
    tmp = tempfile.mkdtemp(prefix="hargs")
    runs = [{"config": c, "outcome": run(c, tmp)} for c in cfgs]
    import shutil
    shutil.rmtree(tmp, ignore_errors=True)
    json.dump({"runs": runs}, open(out, "w"))
    print(json.dumps([out]))


main()
