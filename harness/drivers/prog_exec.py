"""EV for C01 / C05 / C03 / C04: generate programs (and their erased / overwritten variants) and serialise them as abstract
programs (class table + top-level signatures + walk) for the typing walk of HTyping."""
import json
import sys

import genlib


def main():
    lang, sw, seeds, stages, out = sys.argv[1], json.loads(sys.argv[2]), json.loads(sys.argv[3]), sys.argv[4].split(","), sys.argv[5]
    genlib.setup(lang, dis_use=sw["disUse"], dis_contra=sw["disContra"], no_bounds=sw["noBounds"], no_param_fn=sw["noParamFn"])
    import pser

    def work():
        progs = []
        swn = "".join("1" if sw[k] else "0" for k in ("disUse", "disContra", "noBounds", "noParamFn"))
        for seed in seeds:
            try:
                p = genlib.generate(seed)
            except Exception as e:  # noqa: BLE001   (C18's business)
                progs.append({"id": "%s/%s/%d/generated" % (lang, swn, seed), "lang": lang, "mode": "declared", "skip": type(e).__name__,
                              "ct": {}, "g": {"vars": [], "funs": []}, "ev": []})
                continue
            cur = {"generated": p}
            if "erased" in stages or "overwritten" in stages:
                cur["erased"], te = genlib.erase(p, seed)
            if "overwritten" in stages:
                cur["overwritten"], tw = genlib.overwrite(cur["erased"], seed + 2)
            for st in stages:
                a = pser.ser_program(cur[st])
                a.update(id="%s/%s/%d/%s" % (lang, swn, seed, st), mode="declared" if st == "generated" else "inference", skip="")
                if st == "overwritten":
                    a["injected"] = tw.error_injected or ""
                progs.append(a)
        return progs
    progs = genlib.in_big_stack(work)
    json.dump({"progs": progs}, open(out, "w"), separators=(",", ":"))
    print(json.dumps([out]))


main()
