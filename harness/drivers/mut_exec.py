"""EV for C03 / C04: real mutations on real programs; before/after abstract programs for the frame check (HMutationTrace) and
the after-programs (inference mode) for the typing walk (HTyping)."""
import hashlib
import json
import sys

import genlib


def dig(s):
    return hashlib.sha1(s.encode()).hexdigest()[:12]


def main():
    lang, sw, seeds, kind, out = sys.argv[1], json.loads(sys.argv[2]), json.loads(sys.argv[3]), sys.argv[4], sys.argv[5]
    genlib.setup(lang, dis_use=sw["disUse"], dis_contra=sw["disContra"], no_bounds=sw["noBounds"], no_param_fn=sw["noParamFn"])
    import pser
    import hlib
    from src.ir import type_utils as tu
    last = {}
    real_fit = tu.find_irrelevant_type

    def spy(etype, types, factory):
        r = real_fit(etype, types, factory)
        last.update(old=etype, new=r)
        return r
    tu.find_irrelevant_type = spy      # what the mutation asked to replace, and by what (to compare with what it actually replaced)
    swn = "".join("1" if sw[k] else "0" for k in ("disUse", "disContra", "noBounds", "noParamFn"))

    def abstract(p, pid, mode):
        a = pser.ser_program(p)
        a.update(id=pid, mode=mode, skip="")
        return a

    def work():
        cases, progs = [], []
        for seed in seeds:
            try:
                p = genlib.generate(seed)
                e1, t1 = genlib.erase(p, seed)
            except Exception:  # noqa: BLE001   (C18's business)
                continue
            base = "%s/%s/%d" % (lang, swn, seed)
            if kind == "erase":
                # the driver's schedule may apply the erasure repeatedly: check the first and a second application
                e2, t2 = genlib.erase(e1, seed + 1)
                for tag, b, a, t in (("erase1", p, e1, t1), ("erase2", e1, e2, t2)):
                    ab, aa = abstract(b, base + "/" + tag + "/before", "declared" if tag == "erase1" else "inference"), abstract(a, base + "/" + tag + "/after", "inference")
                    cases.append({"id": base + "/" + tag, "kind": "erase", "transformed": bool(t.is_transformed), "injected": "",
                                  "before": {k: ab[k] for k in ("ct", "g", "ev")}, "after": {k: aa[k] for k in ("ct", "g", "ev")},
                                  "text_before": "", "text_after": "", "msg_old": "", "msg_new": "", "msg_node": [], "rep_old": [], "rep_new": []})
                    progs += [ab, aa]
            else:
                for k, (b, tagb) in enumerate(((p, "generated"), (e1, "erased"))):
                    for rep in range(2):
                        last.clear()
                        try:
                            w, tw = genlib.overwrite(b, seed + 10 * k + rep)
                        except Exception:  # noqa: BLE001
                            continue
                        inj = tw.error_injected or ""
                        ab = abstract(b, "%s/ow_%s_%d/before" % (base, tagb, rep), "inference")
                        aa = abstract(w, "%s/ow_%s_%d/after" % (base, tagb, rep), "inference")
                        mo = mn = ""
                        node = []
                        if inj and " expected but " in inj and " found in node " in inj:
                            mo, rest = inj.split(" expected but ", 1)
                            mn, nid = rest.rsplit(" found in node ", 1)
                            node = nid.split("/")
                        cases.append({"id": "%s/ow_%s_%d" % (base, tagb, rep), "kind": "overwrite", "transformed": bool(tw.is_transformed), "injected": inj,
                                      "before": {x: ab[x] for x in ("ct", "g", "ev")}, "after": {x: aa[x] for x in ("ct", "g", "ev")},
                                      "text_before": dig(genlib.translate(b)), "text_after": dig(genlib.translate(w)),
                                      "msg_old": mo, "msg_new": mn, "msg_node": node,
                                      "rep_old": [hlib.ser(last["old"])] if inj and last.get("old") is not None else [],
                                      "rep_new": [hlib.ser(last["new"])] if inj and last.get("new") is not None else []})
                        progs += [ab, aa]
        return cases, progs
    cases, progs = genlib.in_big_stack(work)
    json.dump({"cases": cases}, open(out + ".cases.json", "w"), separators=(",", ":"))
    json.dump({"progs": progs}, open(out + ".progs.json", "w"), separators=(",", ":"))
    print(json.dumps([out + ".cases.json", out + ".progs.json"]))


main()
