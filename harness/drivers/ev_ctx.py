"""EV for C16: the symbol-table operations the generator itself performs.  Context._add_entity / _remove_entity are wrapped from the
harness; the recorded history is replayed through HContext by TLC and the real final context (every namespace, every table, in order;
the reverse lookup of every value) is compared with the model's final state."""
import json
import sys

import genlib


def main():
    lang, seeds, out = sys.argv[1], json.loads(sys.argv[2]), sys.argv[3]
    genlib.setup(lang)
    from src.ir.context import Context
    ops, vids, keep = [], {}, []

    from src.ir import types as tp

    byid = {}

    def vid(v):
        # a value is identified by object identity, as the table does (a type parameter is often completed - bound, variance -
        # after it has been added, so neither == nor hash identifies it over time)
        if id(v) not in byid:
            byid[id(v)] = "v%d" % len(byid)
            keep.append(v)          # keep the object alive so that ids are not reused
        return byid[id(v)]
    real_add, real_rem = Context._add_entity, Context._remove_entity

    def add(self, namespace, entity, name, value):
        real_add(self, namespace, entity, name, value)
        ops.append({"op": "padd", "ns": list(namespace), "k": entity, "n": str(name), "v": vid(value)})

    def rem(self, namespace, entity, name):
        real_rem(self, namespace, entity, name)
        ops.append({"op": "prem", "ns": list(namespace), "k": entity, "n": str(name), "v": ""})
    Context._add_entity, Context._remove_entity = add, rem

    def work():
        cases = []
        for seed in seeds:
            ops.clear()
            vids.clear()
            keep.clear()
            byid.clear()
            try:
                p = genlib.generate(seed)
            except Exception:  # noqa: BLE001   (C18's business)
                continue
            ctx = p.context
            final = []
            for ns, tables in ctx._context.items():
                for k, d in tables.items():
                    final.append([list(ns), k, [[str(n), vid(v)] for n, v in d.items()]])
            rev = [[vid(v), list(ctx.get_namespace(v) or ())] for v in keep]
            # a sample of real lookups through the module-level get_decl (outward walk) from the deepest namespaces
            from src.ir.context import get_decl
            look = []
            deep = sorted(ctx._context, key=len)[-12:]
            for ns in deep:
                for name in list(ctx._context[ns]["decls"])[:3] + list(ctx._context.get(ns[:1], {}).get("decls", {}))[:2]:
                    r = get_decl(ctx, ns, name)
                    look.append([list(ns), str(name), [], [] if r is None else [list(r[0]), vid(r[1])]])
            cases.append({"id": "%s/%d" % (lang, seed), "ops": list(ops), "final": final, "rev": rev, "lookup": look})
        return cases
    cases = genlib.in_big_stack(work)
    json.dump({"cases": cases}, open(out, "w"), separators=(",", ":"))
    print(json.dumps([out]))


main()
