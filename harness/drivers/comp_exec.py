"""E step of C14: feed rendered chunk streams to the four real analyze_compiler_output implementations."""
import json
import sys

import render
from src.compilers.java import JavaCompiler
from src.compilers.kotlin import KotlinCompiler
from src.compilers.groovy import GroovyCompiler
from src.compilers.scala import ScalaCompiler

COMP = {"java": JavaCompiler, "kotlin": KotlinCompiler, "groovy": GroovyCompiler, "scala": ScalaCompiler}


def analyse(lang, text, nfiles, root=render.ROOT):
    c = COMP[lang](root, filter_patterns=render.filters(lang))
    exc = ""
    try:
        failed, _ = c.analyze_compiler_output(text)
    except Exception as e:  # noqa: BLE001
        failed, exc = None, type(e).__name__
    inv = {render.path(lang, f, root): f for f in range(1, nfiles + 1)}
    fl = []
    for fname, msgs in (failed or {}).items():
        fl.append([inv.get(fname, 0), [t for m in msgs for t in (render.tokens(m) or [0])]])
    return {"crash": bool(c.crash_msg), "failed": sorted(fl), "exc": exc}


def main():
    inp, outprefix, chunk, nfiles = sys.argv[1], sys.argv[2], int(sys.argv[3]), int(sys.argv[4])
    streams = json.load(open(inp))
    runs, files, k = [], [], 0
    for i, cs in enumerate(streams):
        for lang in COMP:
            r = analyse(lang, render.render(lang, cs), nfiles)
            r.update({"id": "%d/%s" % (i, lang), "compiler": lang, "cs": cs})
            runs.append(r)
        if len(runs) >= chunk:
            path = "%s.%d.json" % (outprefix, k)
            json.dump({"runs": runs}, open(path, "w"), separators=(",", ":"))
            files.append(path)
            runs, k = [], k + 1
    if runs:
        path = "%s.%d.json" % (outprefix, k)
        json.dump({"runs": runs}, open(path, "w"), separators=(",", ":"))
        files.append(path)
    print(json.dumps(files))


if __name__ == "__main__":
    main()
