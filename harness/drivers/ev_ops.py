"""EV for C06 / C08 / C09 / C10: the calls the generator and the mutations actually issue.  The type-system entry points are wrapped
from the harness (outermost calls only, de-duplicated structurally); arguments and results are serialised as terms and judged by TLC
against the *final* program's class table (types captured while a class was under construction carry smaller supertype lists - a
positive answer must still be justified by the completed hierarchy)."""
import json
import sys

import genlib


def main():
    lang, sw, seeds, out = sys.argv[1], json.loads(sys.argv[2]), json.loads(sys.argv[3]), sys.argv[4]
    KINDS = set(sys.argv[5].split(",")) if len(sys.argv) > 5 else {"is_subtype", "find_subtypes", "find_irrelevant", "instantiate", "unify"}
    SCENES = (sys.argv[6], int(sys.argv[7]) if len(sys.argv) > 7 else 24) if len(sys.argv) > 6 else None      # (genlib.setup rewrites sys.argv)
    if SCENES:
        KINDS |= {"match", "prune", "compare", "pick"}
    genlib.setup(lang, dis_use=sw["disUse"], dis_contra=sw["disContra"], no_bounds=sw["noBounds"], no_param_fn=sw["noParamFn"])
    import hlib
    import pser
    from src.ir import types as tp, type_utils as tu, ast
    from src.generators.config import cfg
    rec = {"depth": 0, "events": [], "seen": set(), "dropped": 0}
    VAR = {0: "inv", 1: "out", 2: "in"}

    def ser(t):
        if isinstance(t, ast.ClassDeclaration):
            t = t.get_type()
        return hlib.ser(t)

    def emit(ev):
        if ev["kind"] not in KINDS:
            return
        k = json.dumps(ev, sort_keys=True)
        if k in rec["seen"]:
            return
        rec["seen"].add(k)
        if len(rec["events"]) < 4000:
            rec["events"].append(ev)
        else:
            rec["dropped"] += 1

    def outermost(fn, on_return):
        def w(*a, **k):
            rec["depth"] += 1
            try:
                r = fn(*a, **k)
            finally:
                rec["depth"] -= 1
            if rec["depth"] == 0:
                try:
                    on_return(r, a, k)
                except Exception:  # noqa: BLE001  (unserialisable argument: not an event)
                    rec["dropped"] += 1
            return r
        return w

    def arg(a, k, i, name, default=None):
        return a[i] if len(a) > i else k.get(name, default)

    # --- is_subtype on every type class that defines it
    def sub_ret(r, a, k):
        if r:
            emit({"kind": "is_subtype", "S": ser(a[0]), "T": ser(a[1])})
    done = set()
    for cls in list(vars(tp).values()) + [c for m in sys.modules.values() if getattr(m, "__name__", "").startswith("src.ir.") for c in vars(m).values()]:
        if isinstance(cls, type) and issubclass(cls, tp.Type) and "is_subtype" in vars(cls) and cls not in done and cls is not tp.AbstractType:
            done.add(cls)
            cls.is_subtype = outermost(cls.is_subtype, sub_ret)

    def fs_ret(r, a, k):
        T = ser(a[0])
        res = [ser(x) for x in r]
        inc = bool(arg(a, k, 2, "include_self", False))
        emit({"kind": "find_subtypes", "T": T, "include_self": inc, "concrete_only": bool(arg(a, k, 4, "concrete_only", False)),
              "res": res, "self_in": "all" if T in res else "none", "saw_none": False, "exc": [], "leaves": 1})
    tu.find_subtypes = outermost(tu.find_subtypes, fs_ret)

    def fi_ret(r, a, k):
        emit({"kind": "find_irrelevant", "T": ser(a[0]), "include_self": False, "concrete_only": False, "res": [ser(r)] if r is not None else [],
              "self_in": "none", "saw_none": r is None, "exc": [], "leaves": 1})
    tu.find_irrelevant_type = outermost(tu.find_irrelevant_type, fi_ret)

    def tsub(t, m):
        """structural substitution on terms (the caller's assignment of *outer* type variables applied to the bounds)"""
        if t["k"] == "V" and t["n"] in m:
            return m[t["n"]]
        return {"k": t["k"], "n": t["n"], "a": [tsub(x, m) for x in t["a"]]}

    def tps_of(params, outer=None):
        outer = outer or {}
        return [{"n": p.name, "v": VAR[p.variance.value], "b": [tsub(ser(p.bound), outer)] if p.bound is not None else []} for p in params]

    def inst_ret(r, a, k):
        tc = a[0]
        pre = arg(a, k, 3, "type_var_map") or {}
        vc = arg(a, k, 4, "variance_choices")
        # PECS / disabled variance rewrite the caller's choices inside the helper: the options are recorded (HTypeOps.EffChoices)
        opt = {"isfun": tc.name.startswith("Function"), "pecs": bool(arg(a, k, 5, "enable_pecs", True)),
               "dvf": bool(arg(a, k, 6, "disable_variance_functions", False)), "dv": bool(arg(a, k, 7, "disable_variance", False))}
        names = {p.name for p in tc.type_parameters}
        pt, m = r
        outer = {p.name: ser(t) for p, t in pre.items() if p.name not in names}
        emit({"kind": "instantiate", "tps": tps_of(tc.type_parameters, outer), "pre": {p.name: ser(t) for p, t in pre.items() if p.name in names},
              "choices": {"on": vc is not None, "m": {p.name: [bool(v[0]), bool(v[1])] for p, v in (vc or {}).items() if p.name in names}},
              "sw": {"disUse": bool(cfg.dis.use_site_variance), "disContra": bool(cfg.dis.use_site_contravariance)}, "fn": False, "opt": opt,
              "outs": [{"args": [ser(x) for x in pt.type_args], "map": {p.name: ser(t) for p, t in m.items() if p.name in names}}],
              "res": [], "exc": [], "leaves": 1, "argdesc": tc.name})
    tu.instantiate_type_constructor = outermost(tu.instantiate_type_constructor, inst_ret)

    def instf_ret(r, a, k):
        params = a[0]
        pre = arg(a, k, 3, "type_var_map") or {}
        names = {p.name for p in params}
        outer = {p.name: ser(t) for p, t in pre.items() if p.name not in names}
        emit({"kind": "instantiate", "tps": tps_of(params, outer), "pre": {p.name: ser(t) for p, t in pre.items() if p.name in names},
              "choices": {"on": False, "m": {}}, "sw": {"disUse": bool(cfg.dis.use_site_variance), "disContra": bool(cfg.dis.use_site_contravariance)},
              "fn": True, "outs": [{"args": [ser(r[p]) for p in params], "map": {p.name: ser(t) for p, t in r.items() if p.name in names}}],
              "res": [], "exc": [], "leaves": 1, "argdesc": "function"})
    tu.instantiate_parameterized_function = outermost(tu.instantiate_parameterized_function, instf_ret)

    # the generator also calls the common core of both helpers directly (a generic method of a generic class: class and function
    # parameters instantiated together); calls made from inside the two helpers above are not outermost and are not recorded twice
    def core_ret(r, a, k):
        params = a[0]
        pre = arg(a, k, 2, "type_var_map") or {}
        vc = arg(a, k, 3, "variance_choices")
        names = {p.name for p in params}
        t_args, m = r
        outer = {p.name: ser(t) for p, t in pre.items() if p.name not in names}
        emit({"kind": "instantiate", "tps": tps_of(params, outer), "pre": {p.name: ser(t) for p, t in pre.items() if p.name in names},
              "choices": {"on": vc is not None, "m": {p.name: [bool(v[0]), bool(v[1])] for p, v in (vc or {}).items() if p.name in names}},
              "sw": {"disUse": bool(cfg.dis.use_site_variance), "disContra": bool(cfg.dis.use_site_contravariance)},
              "fn": not bool(arg(a, k, 4, "for_type_constructor", True)),
              "opt": {"isfun": False, "pecs": True, "dvf": False, "dv": False},
              "outs": [{"args": [ser(x) for x in t_args], "map": {p.name: ser(t) for p, t in m.items() if p.name in names}}],
              "res": [], "exc": [], "leaves": 1, "argdesc": "_compute_type_variable_assignments"})
    tu._compute_type_variable_assignments = outermost(tu._compute_type_variable_assignments, core_ret)

    def un_ret(r, a, k):
        if r:
            emit({"kind": "unify", "t1": ser(a[0]), "t2": ser(a[1]), "same": bool(arg(a, k, 3, "same_type", True)),
                  "sigma": {p.name: ser(t) for p, t in r.items()}, "res": [], "exc": []})
    tu.unify_types = outermost(tu.unify_types, un_ret)

    def work():
        cases = []
        swn = "".join("1" if sw[k] else "0" for k in ("disUse", "disContra", "noBounds", "noParamFn"))
        for seed in seeds:
            rec.update(depth=0, events=[], seen=set(), dropped=0)
            try:
                p = genlib.generate(seed)
                e, _ = genlib.erase(p, seed)
                genlib.overwrite(e, seed + 2)
                genlib.overwrite(p, seed + 3)
            except Exception:  # noqa: BLE001   (C18's business)
                continue
            ct = {c: {"tp": v["tp"], "sup": v["sup"]} for c, v in pser.ser_program(p, maxfun=6, walk=False)["ct"].items()}
            cases.append({"id": "%s/%s/%d" % (lang, swn, seed), "lang": lang, "ct": ct, "events": list(rec["events"]), "dropped": rec["dropped"]})
        return cases
    def scenes_work():
        """generator scenes (spec/HGenScene.tla): a real Generator over a real Context holding exactly the scene's declarations"""
        from src.ir.context import Context
        from src.generators.generator import Generator
        from src import utils
        scenes = json.load(open(SCENES[0]))
        nseeds = SCENES[1]
        cases = []

        def fresh():
            g = Generator(language=lang)
            g.context = Context()
            return g

        def B(g, name):
            return getattr(g.bt_factory, hlib.BUILTIN_GETTERS[name])()

        def build(g, t, env, foo=None):
            if t["k"] == "V":
                return env[t["n"]]
            if t["n"] == "Foo":
                return foo.get_type().new([build(g, a, env, foo) for a in t["a"]])
            return B(g, t["n"])

        def mk_tps(g, lst, env, foo=None):
            out = []
            for q in lst:
                x = tp.TypeParameter(q["n"], hlib.VAR[q["v"]], build(g, q["b"][0], env, foo) if q["b"] else None)
                env[q["n"]] = x
                out.append(x)
            return out

        def table(g, extra):
            ct = {c: {"tp": v["tp"], "sup": v["sup"]} for c, v in pser.builtin_table(g.bt_factory, 4).items()}
            ct.update(extra)
            return ct
        for k, sc in enumerate(scenes):
            q = sc["id"]
            rec.update(depth=0, events=[], seen=set(), dropped=0)
            g = fresh()
            if q["kind"] == "match":
                env = {}
                ctps = mk_tps(g, sc["ctps"], env)
                foo = ast.ClassDeclaration("Foo", [], ast.ClassDeclaration.REGULAR, fields=[], functions=[], is_final=True, type_parameters=ctps)
                menv = dict(env)
                mtps = mk_tps(g, sc["mtps"], menv, foo)
                mty = build(g, sc["mty"], menv, foo)
                if q["member"] == "fun":
                    member = ast.FunctionDeclaration("m", params=[], ret_type=mty, body=ast.BottomConstant(mty),
                                                     func_type=ast.FunctionDeclaration.CLASS_METHOD, type_parameters=mtps)
                    foo.functions.append(member)
                else:
                    member = ast.FieldDeclaration("f", mty)
                    foo.fields.append(member)
                g.context.add_class(ast.GLOBAL_NAMESPACE, "Foo", foo)
                want = B(g, q["want"])
                for seed in range(nseeds):
                    utils.random.r.seed(seed)
                    try:
                        info = g._get_matching_class(want, subtype=q["subtype"], attr_name="functions" if q["member"] == "fun" else "fields")
                    except Exception as e:  # noqa: BLE001
                        emit({"kind": "match", "S": ser(want), "T": ser(want), "missing": [], "inst": {}, "finst": {}, "res": [], "exc": [type(e).__name__]})
                        continue
                    if info is None:
                        continue
                    m = dict(info.receiver_inst or {})
                    # a function's type argument that was given as a projection is written (by every translator) as its bound
                    m.update({x: (t.bound if t.is_wildcard() and t.bound is not None else t) for x, t in (info.attr_inst or {}).items()})
                    # reading a member through a projected receiver (capture): out X gives X, in X / * give the parameter's declared bound
                    # (the top type when it has none)
                    m = {x: (t if not t.is_wildcard() else t.bound if (t.bound is not None and t.is_covariant()) else
                             (x.bound if x.bound is not None and not x.bound.has_type_variables() else g.bt_factory.get_any_type())) for x, t in m.items()}
                    st = tp.substitute_type(member.get_type(), m)
                    names = [x.name for x in ctps + mtps]
                    emit({"kind": "match", "S": ser(st), "T": ser(want), "missing": [n for n in names if n not in {x.name for x in m}],
                          "inst": {x.name: ser(t) for x, t in m.items()}, "finst": {x.name: ser(t) for x, t in (info.attr_inst or {}).items()},
                          "recv": ser(info.receiver_t), "res": [], "exc": []})
                ct = table(g, {"Foo": {"tp": sc["ctps"], "sup": []}})
            elif q["kind"] == "prune":
                env = {}
                foo = ast.ClassDeclaration("Foo", [], ast.ClassDeclaration.REGULAR, fields=[], functions=[], is_final=True,
                                           type_parameters=[tp.TypeParameter("T")])
                tps = mk_tps(g, sc["tps"], env, foo)
                for x in tps:
                    g.context.add_type(g.namespace, x.name, x)
                used = sorted(q["used"]) if not isinstance(q["used"], dict) else []
                params = [ast.ParameterDeclaration("p%d" % i, env[n]) for i, n in enumerate(used)]
                ret = env[q["ret"]] if q["ret"] in env else (foo.get_type().new([env["F_C"]]) if q["ret"] == "FooC" else B(g, "String"))
                mentioned = sorted(set(used) | ({q["ret"]} if q["ret"] in env else ({"F_C"} if q["ret"] == "FooC" else set())))
                try:
                    g._remove_unused_type_params(tps, params, ret)
                    emit({"kind": "prune", "used": mentioned, "after": tps_of(tps), "res": [], "exc": []})
                except Exception as e:  # noqa: BLE001
                    emit({"kind": "prune", "used": [], "after": [], "res": [], "exc": [type(e).__name__]})
                ct = table(g, {"Foo": {"tp": [{"n": "T", "v": "inv", "b": []}], "sup": []}})
            elif q["kind"] == "pick":
                tpar = tp.TypeParameter("T", hlib.VAR[q["v"]])
                sink = ast.ClassDeclaration("Sink", [], ast.ClassDeclaration.REGULAR, fields=[], functions=[], is_final=True, type_parameters=[tpar])

                def sk(t):
                    if t["k"] == "W":
                        return tp.WildCardType(B(g, t["a"][0]["n"]), hlib.VAR[t["n"]])
                    return B(g, t["n"])
                vt = {"x": sink.get_type().new([sk(sc["ax"])]), "y": sink.get_type().new([sk(sc["ay"])])}
                want = sink.get_type().new([sk(sc["w"])])
                ns = ast.GLOBAL_NAMESPACE + ("test",)
                for seed in range(nseeds):
                    utils.random.reset_word_pool()
                    utils.random.r.seed(seed)
                    g = fresh()
                    g.context.add_class(ast.GLOBAL_NAMESPACE, "Sink", sink)
                    params = [ast.ParameterDeclaration(n, t) for n, t in vt.items()]
                    fdecl = ast.FunctionDeclaration("test", params, g.bt_factory.get_void_type(), ast.BottomConstant(g.bt_factory.get_void_type()),
                                                    func_type=ast.FunctionDeclaration.FUNCTION)
                    g.context.add_func(ast.GLOBAL_NAMESPACE, "test", fdecl)
                    for pd in params:
                        g.context.add_var(ns, pd.name, pd)
                    g.namespace = ns
                    g.depth = 2
                    try:
                        ex = g.gen_variable(want, only_leaves=True, subtype=True)
                    except Exception as e:  # noqa: BLE001
                        emit({"kind": "pick", "S": ser(want), "T": ser(want), "res": [], "exc": [type(e).__name__]})
                        continue
                    if isinstance(ex, ast.Variable) and ex.name in vt:
                        emit({"kind": "pick", "S": ser(vt[ex.name]), "T": ser(want), "var": ex.name, "res": [], "exc": []})
                ct = table(g, {"Sink": {"tp": [{"n": "T", "v": q["v"], "b": []}], "sup": []}})
            else:
                asked = []
                orig = g.generate_expr

                nest = [0]

                def spy(expr_type=None, *a, **k):
                    if nest[0] == 0:          # the two operands only, not what their generation asks for in turn
                        asked.append(expr_type)
                    nest[0] += 1
                    try:
                        return orig(expr_type, *a, **k)
                    finally:
                        nest[0] -= 1
                g.generate_expr = spy
                for seed in range(nseeds * 10):
                    utils.random.r.seed(seed)
                    del asked[:]
                    try:
                        nest[0] = 0
                        e = g.gen_comparison_expr(only_leaves=True)
                        emit({"kind": "compare", "lt": ser(asked[0]), "rt": ser(asked[1]), "op": str(e.operator), "res": [], "exc": []})
                    except Exception as e:  # noqa: BLE001
                        emit({"kind": "compare", "lt": ser(B(g, "Int")), "rt": ser(B(g, "Int")), "op": "", "res": [], "exc": [type(e).__name__]})
                ct = table(g, {})
            cases.append({"id": "%s/scene%d/%s" % (lang, k, json.dumps(q, sort_keys=True)), "lang": lang, "ct": ct, "events": list(rec["events"]), "dropped": rec["dropped"]})
        return cases
    cases = genlib.in_big_stack(scenes_work if SCENES else work)
    json.dump({"cases": cases}, open(out, "w"), separators=(",", ":"))
    print(json.dumps([out]))


main()
