"""EV for C06 / C08 / C09 / C10: the calls the generator and the mutations actually issue.  The type-system entry points are wrapped
from the harness (outermost calls only, de-duplicated structurally); arguments and results are serialised as terms and judged by TLC
against the *final* program's class table (types captured while a class was under construction carry smaller supertype lists - a
positive answer must still be justified by the completed hierarchy)."""
import json
import sys

import genlib


def main():
    lang, sw, seeds, out = sys.argv[1], json.loads(sys.argv[2]), json.loads(sys.argv[3]), sys.argv[4]
    KINDS = set(sys.argv[5].split(",")) if len(sys.argv) > 5 else {"is_subtype", "find_subtypes", "find_irrelevant", "instantiate", "unify"}
    genlib.setup(lang, dis_use=sw["disUse"], dis_contra=sw["disContra"], no_bounds=sw["noBounds"], no_param_fn=sw["noParamFn"])
    import hlib
    import pser
    from src.ir import types as tp, type_utils as tu, ast
    from src.generators.config import cfg
    rec = {"depth": 0, "events": [], "seen": set(), "dropped": 0}
    VAR = {0: "inv", 1: "out", 2: "in"}

    def ser(t):
        if isinstance(t, ast.ClassDeclaration):
            t = t.get_type()
        return hlib.ser(t)

    def emit(ev):
        if ev["kind"] not in KINDS:
            return
        k = json.dumps(ev, sort_keys=True)
        if k in rec["seen"]:
            return
        rec["seen"].add(k)
        if len(rec["events"]) < 4000:
            rec["events"].append(ev)
        else:
            rec["dropped"] += 1

    def outermost(fn, on_return):
        def w(*a, **k):
            rec["depth"] += 1
            try:
                r = fn(*a, **k)
            finally:
                rec["depth"] -= 1
            if rec["depth"] == 0:
                try:
                    on_return(r, a, k)
                except Exception:  # noqa: BLE001  (unserialisable argument: not an event)
                    rec["dropped"] += 1
            return r
        return w

    def arg(a, k, i, name, default=None):
        return a[i] if len(a) > i else k.get(name, default)

    # --- is_subtype on every type class that defines it
    def sub_ret(r, a, k):
        if r:
            emit({"kind": "is_subtype", "S": ser(a[0]), "T": ser(a[1])})
    done = set()
    for cls in list(vars(tp).values()) + [c for m in sys.modules.values() if getattr(m, "__name__", "").startswith("src.ir.") for c in vars(m).values()]:
        if isinstance(cls, type) and issubclass(cls, tp.Type) and "is_subtype" in vars(cls) and cls not in done and cls is not tp.AbstractType:
            done.add(cls)
            cls.is_subtype = outermost(cls.is_subtype, sub_ret)

    def fs_ret(r, a, k):
        T = ser(a[0])
        res = [ser(x) for x in r]
        inc = bool(arg(a, k, 2, "include_self", False))
        emit({"kind": "find_subtypes", "T": T, "include_self": inc, "concrete_only": bool(arg(a, k, 4, "concrete_only", False)),
              "res": res, "self_in": "all" if T in res else "none", "saw_none": False, "exc": [], "leaves": 1})
    tu.find_subtypes = outermost(tu.find_subtypes, fs_ret)

    def fi_ret(r, a, k):
        emit({"kind": "find_irrelevant", "T": ser(a[0]), "include_self": False, "concrete_only": False, "res": [ser(r)] if r is not None else [],
              "self_in": "none", "saw_none": r is None, "exc": [], "leaves": 1})
    tu.find_irrelevant_type = outermost(tu.find_irrelevant_type, fi_ret)

    def tsub(t, m):
        """structural substitution on terms (the caller's assignment of *outer* type variables applied to the bounds)"""
        if t["k"] == "V" and t["n"] in m:
            return m[t["n"]]
        return {"k": t["k"], "n": t["n"], "a": [tsub(x, m) for x in t["a"]]}

    def tps_of(params, outer=None):
        outer = outer or {}
        return [{"n": p.name, "v": VAR[p.variance.value], "b": [tsub(ser(p.bound), outer)] if p.bound is not None else []} for p in params]

    def inst_ret(r, a, k):
        tc = a[0]
        pre = arg(a, k, 3, "type_var_map") or {}
        vc = arg(a, k, 4, "variance_choices")
        if tc.name.startswith("Function") or arg(a, k, 7, "disable_variance", False) or arg(a, k, 6, "disable_variance_functions", False):
            return      # PECS / disabled variance rewrite the caller's choices inside the helper
        names = {p.name for p in tc.type_parameters}
        pt, m = r
        outer = {p.name: ser(t) for p, t in pre.items() if p.name not in names}
        emit({"kind": "instantiate", "tps": tps_of(tc.type_parameters, outer), "pre": {p.name: ser(t) for p, t in pre.items() if p.name in names},
              "choices": {"on": vc is not None, "m": {p.name: [bool(v[0]), bool(v[1])] for p, v in (vc or {}).items() if p.name in names}},
              "sw": {"disUse": bool(cfg.dis.use_site_variance), "disContra": bool(cfg.dis.use_site_contravariance)}, "fn": False,
              "outs": [{"args": [ser(x) for x in pt.type_args], "map": {p.name: ser(t) for p, t in m.items() if p.name in names}}],
              "res": [], "exc": [], "leaves": 1, "argdesc": tc.name})
    tu.instantiate_type_constructor = outermost(tu.instantiate_type_constructor, inst_ret)

    def instf_ret(r, a, k):
        params = a[0]
        pre = arg(a, k, 3, "type_var_map") or {}
        names = {p.name for p in params}
        outer = {p.name: ser(t) for p, t in pre.items() if p.name not in names}
        emit({"kind": "instantiate", "tps": tps_of(params, outer), "pre": {p.name: ser(t) for p, t in pre.items() if p.name in names},
              "choices": {"on": False, "m": {}}, "sw": {"disUse": bool(cfg.dis.use_site_variance), "disContra": bool(cfg.dis.use_site_contravariance)},
              "fn": True, "outs": [{"args": [ser(r[p]) for p in params], "map": {p.name: ser(t) for p, t in r.items() if p.name in names}}],
              "res": [], "exc": [], "leaves": 1, "argdesc": "function"})
    tu.instantiate_parameterized_function = outermost(tu.instantiate_parameterized_function, instf_ret)

    def un_ret(r, a, k):
        if r:
            emit({"kind": "unify", "t1": ser(a[0]), "t2": ser(a[1]), "same": bool(arg(a, k, 3, "same_type", True)),
                  "sigma": {p.name: ser(t) for p, t in r.items()}, "res": [], "exc": []})
    tu.unify_types = outermost(tu.unify_types, un_ret)

    def work():
        cases = []
        swn = "".join("1" if sw[k] else "0" for k in ("disUse", "disContra", "noBounds", "noParamFn"))
        for seed in seeds:
            rec.update(depth=0, events=[], seen=set(), dropped=0)
            try:
                p = genlib.generate(seed)
                e, _ = genlib.erase(p, seed)
                genlib.overwrite(e, seed + 2)
                genlib.overwrite(p, seed + 3)
            except Exception:  # noqa: BLE001   (C18's business)
                continue
            ct = {c: {"tp": v["tp"], "sup": v["sup"]} for c, v in pser.ser_program(p, maxfun=6, walk=False)["ct"].items()}
            cases.append({"id": "%s/%s/%d" % (lang, swn, seed), "lang": lang, "ct": ct, "events": list(rec["events"]), "dropped": rec["dropped"]})
        return cases
    cases = genlib.in_big_stack(work)
    json.dump({"cases": cases}, open(out, "w"), separators=(",", ":"))
    print(json.dumps([out]))


main()
