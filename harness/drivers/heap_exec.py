"""E step of C07: perform TLC-generated histories of instantiations / substitutions on one shared set of real
declarations; after every step record the result, its transitive supertypes and a structural snapshot of every object
that existed before the step (definitions, argument objects, earlier results)."""
import hashlib
import json
import sys

import hlib
from src.ir import types as tp


def dig(o):
    return hashlib.sha1(json.dumps(hlib.snapshot(o), default=str).encode()).hexdigest()[:10]


def type_vars_in(t, acc):
    if isinstance(t, tp.TypeParameter):
        acc.setdefault(t.name, t)
        if t.bound is not None:
            type_vars_in(t.bound, acc)
    elif isinstance(t, tp.WildCardType) and t.bound is not None:
        type_vars_in(t.bound, acc)
    elif isinstance(t, tp.ParameterizedType):
        for a in t.type_args:
            type_vars_in(a, acc)
    return acc


def run(case, lang):
    T = hlib.Table(case["ct"], case["order"], lang)
    tracked = []            # objects whose snapshot must never change
    for name in case["order"]:
        d = T.decl[name]
        tracked += list(d.type_parameters) + list(d.supertypes)
    results, steps = [], []
    for o in case["hist"]:
        before = [dig(x) for x in tracked]
        rec = {"op": o["op"], "c": o["c"], "args": o["args"], "r": o["r"], "r2": o["r2"],
               "sigma": o["sigma"] if isinstance(o["sigma"], dict) else {}}
        res, exc, answer = None, "", None
        try:
            if o["op"] == "new":
                args = [T.build(a) for a in o["args"]]
                tracked += args
                before += [dig(x) for x in args]
                res = T.decl[o["c"]].get_type().new(args)
            elif o["op"] == "self":
                d = T.decl[o["c"]]
                res = d.get_type().new(list(d.type_parameters))
            elif o["op"] == "renew":
                args = [T.build(a) for a in o["args"]]
                tracked += args
                before += [dig(x) for x in args]
                res = results[o["r"] - 1].t_constructor.new(args)
            elif o["op"] == "subst":
                src = results[o["r"] - 1]
                tvs = type_vars_in(src, {})
                imgs = {k: T.build(v) for k, v in rec["sigma"].items()}
                tracked += list(imgs.values())
                before += [dig(x) for x in imgs.values()]
                res = tp.substitute_type(src, {tvs[k]: v for k, v in imgs.items() if k in tvs})
            elif o["op"] == "tovf":
                res = results[o["r"] - 1].to_variance_free()
            elif o["op"] == "totvf":
                res = results[o["r"] - 1].to_type_variable_free(T.factory)
            elif o["op"] == "issub":
                answer = bool(results[o["r"] - 1].is_subtype(results[o["r2"] - 1]))
        except Exception as e:  # noqa: BLE001
            exc = type(e).__name__ + ": " + str(e)[:80]
        after = [dig(x) for x in tracked]
        rec["exc"] = exc
        rec["answer"] = [] if answer is None else [answer]
        rec["res"] = [hlib.ser(res)] if res is not None else []
        rec["supers"] = [hlib.ser(s) for s in res.get_supertypes()] if res is not None and not exc else []
        tv = type_vars_in(res, {}) if res is not None else {}
        rec["vv"] = sorted([n, hlib.VNAME[v.variance.value]] for n, v in tv.items())
        rec["eq"] = bool(res == results[o["r"] - 1]) if (o["op"] == "subst" and res is not None) else True
        rec["changed"] = [i + 1 for i, (a, b) in enumerate(zip(before, after)) if a != b]
        rec["tracked"] = len(before)
        steps.append(rec)
        results.append(res)
        if res is not None:
            tracked.append(res)
    return {"id": case["id"], "lang": lang, "ct": case["ct"], "steps": steps, "ev": False}


def main():
    inp, outprefix, chunk = sys.argv[1], sys.argv[2], int(sys.argv[3])
    cases = json.load(open(inp))
    out = [run(c, c["lang"]) for c in cases]
    print(json.dumps(hlib.emit_chunks(out, outprefix, chunk)))


main()
