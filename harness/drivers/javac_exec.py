"""EV part of C14 for Java: real javac on batches in which a known subset of files was broken by type edits; the real
output is analysed by the real JavaCompiler and compared (by TLC) with the ground truth known by construction."""
import json
import os
import random
import shutil
import subprocess
import sys
import tempfile

import render
from comp_exec import analyse

GOOD = """package src.%(pkg)s;
class MSG1Foo {}
class MSG4Foo<T> {}
class MSG5Foo {}
class Main {
  static Thread helper() { return null; }
%(body)s
}
"""
ERR = {
    1: "  static void e%d() { String s = new MSG1Foo(); }\n",
    4: "  static void e%d() { java.util.List<String> s = new MSG4Foo<java.util.Map<String, ? extends Number>>(); }\n",
    5: "  static class Thread {}\n  static void e%d() { java.util.Map<MSG5Foo, Main.Thread> t = new java.util.HashMap<MSG5Foo, java.lang.Thread>(); }\n",
}
OK = "  static void g%d() { Object o = new MSG1Foo(); int x = 1 + %d; }\n"


def main():
    outprefix, seed, n = sys.argv[1], int(sys.argv[2]), int(sys.argv[3])
    rnd = random.Random(seed)
    runs = []
    for b in range(n):
        root = tempfile.mkdtemp(prefix="tmp")
        src = os.path.join(root, "src")
        cs = []
        try:
            for f in (1, 2, 3):
                d = os.path.join(src, render.WORDS[f - 1])
                os.makedirs(d)
                body, k = "", 0
                for _ in range(rnd.randint(0, 3)):
                    k += 1
                    if rnd.random() < 0.5:
                        m = rnd.choice([1, 4, 5] if "Thread {}" not in body else [1, 4])
                        body += ERR[m] % k
                        cs.append({"k": "err", "f": f, "m": m})
                    else:
                        body += OK % (k, k)
                open(os.path.join(d, "Main.java"), "w").write(GOOD % {"pkg": render.WORDS[f - 1], "body": body})
            p = subprocess.run("javac -nowarn %s/*/*.java" % src, shell=True, stdout=subprocess.PIPE, stderr=subprocess.STDOUT, text=True)
            r = analyse("java", p.stdout, 3, root=src)
            r.update({"id": "javac/%d" % b, "compiler": "java", "cs": cs, "text": p.stdout[:3000]})
            runs.append(r)
        finally:
            shutil.rmtree(root, ignore_errors=True)
    path = outprefix + ".json"
    json.dump({"runs": runs}, open(path, "w"))
    print(json.dumps([path]))


main()
