"""E step of C15: ONE real driver session (hephaestus.py parses argv at import and freezes STATS, so one process per session).
Real: gen_program, process_cp/ncp_transformations, save_program, check_oracle(_mul), update_stats, save_stats, _run, run,
run_parallel (fork pool).  Scripted: ProgramProcessor (outcome per program id from the scenario) and run_command (a stand-in
compiler that prints javac-formatted output for the scenario's verdicts).  Events are appended to one log by every process."""
import contextlib
import io
import json
import os
import shutil
import sys
import tempfile

scenario = json.loads(sys.stdin.read())
N, B, POOL = scenario["n"], scenario["batch"], scenario["pool"]
bugs = tempfile.mkdtemp(prefix="hbugs")
EVENTS = os.path.join(bugs, "events.ndjson")
MAP = os.path.join(bugs, "map.ndjson")
sys.argv = ["hephaestus.py", "--bugs", bugs, "--name", "s", "--language", "java", "--iterations", str(N), "--batch", str(B),
            "-t", "0", "--log-file", os.path.join(bugs, "logs")] + (["--workers", "2"] if POOL else [])


def append(path, obj):
    fd = os.open(path, os.O_WRONLY | os.O_APPEND | os.O_CREAT, 0o644)
    try:
        os.write(fd, (json.dumps(obj) + "\n").encode())
    finally:
        os.close(fd)


TOOL_MSG = "scripted tool failure"
INJECTED = "Int expected but String found in node global/x"
out = {"exc": ""}
buf = io.StringIO()
try:
    with contextlib.redirect_stdout(buf):
        import hephaestus as H
        from src.ir import ast
        from src.ir.context import Context
        td = H.cli_args.test_directory
        PROGRAM = ast.Program(Context(), "java")

        class Scripted:
            current_transformation = 0

            def __init__(self, pid, args):
                self.o = scenario["outs"][pid - 1]

            def get_program(self):
                if self.o["kind"] == "tool":
                    raise RuntimeError(TOOL_MSG)
                return PROGRAM, True

            def can_transform(self):
                return False

            def get_transformations(self):
                return []

            def inject_fault(self, program):
                if self.o["kind"] == "late":
                    raise RuntimeError(TOOL_MSG)
                if self.o["kind"] == "pass":
                    return None
                return PROGRAM, INJECTED

        H.ProgramProcessor = Scripted
        real_gen, real_check, real_update = H.gen_program, H.check_oracle, H.update_stats

        def gen_program(pid, dirname, packages):
            append(MAP, {"pid": pid, "dir": dirname, "pass": packages[0], "fail": packages[1]})
            r = real_gen(pid, dirname, packages)
            append(EVENTS, {"ev": "gen", "pid": pid, "failed": bool(r.failed)})
            return r

        def classify(err):
            err = err or ""
            if TOOL_MSG in err:
                return "tool"
            if err.startswith("SHOULD NOT BE COMPILED"):
                return "snc"
            if "exception has occurred in the compiler" in err:
                return "crash"
            if "error: incompatible types" in err:
                return "compiler"
            return "other:" + err[:40]

        def saved_dirs():
            if not os.path.isdir(td):
                return []
            return sorted(int(x) for x in os.listdir(td) if x.isdigit() and os.path.isdir(os.path.join(td, x)))

        CUR = {"b": None}

        def check_oracle(dirname, oracles):
            b = (min(oracles) - 1) // B + 1
            CUR["b"] = b           # the stand-in compiler below is called (in this process) by the real check of this batch
            try:
                res = real_check(dirname, oracles)
            except BaseException as e:  # noqa: BLE001
                append(EVENTS, {"ev": "check", "batch": b, "exc": type(e).__name__, "reported": [], "classes": [], "saved": saved_dirs()})
                raise
            rep = sorted(res[0])
            append(EVENTS, {"ev": "check", "batch": b, "exc": "", "reported": rep, "classes": [classify(res[0][p].get("error")) for p in rep],
                            "saved": saved_dirs(), "batch_dir_left": os.path.exists(dirname)})
            return res

        def update_stats(res, batch, batch_time):
            real_update(res, batch, batch_time)
            try:
                ff = sorted(int(k) for k in json.load(open(os.path.join(td, "faults.json"))))
            except Exception:  # noqa: BLE001
                ff = [-1]
            append(EVENTS, {"ev": "update", "passed": H.STATS["totals"]["passed"], "failed": H.STATS["totals"]["failed"],
                            "faults": sorted(int(k) for k in H.STATS["faults"]), "faults_file": ff})

        def run_command(arguments, get_stdout=True):
            if "-version" in arguments:
                return True, "javac 17.0.9"
            src = arguments[-1].split("/*/")[0]
            entries = [json.loads(l) for l in open(MAP)] if os.path.exists(MAP) else []
            mine = list({e["pid"]: e for e in entries if e["dir"] == src}.values())      # it "compiles" whatever is on disk below src
            b = CUR["b"] if CUR["b"] is not None else (min(e["pid"] for e in mine) - 1) // B + 1
            if scenario["crashes"][b - 1]:
                return False, ("An exception has occurred in the compiler (17.0.9). Please file a bug against the Java compiler.\n"
                               "java.lang.NullPointerException: Cannot invoke \"com.sun.tools.javac.code.Type.getTag()\"\n"
                               "\tat jdk.compiler/com.sun.tools.javac.comp.Attr.visitApply(Attr.java:2229)\n")
            text, n = "", 0
            for e in sorted(mine, key=lambda x: x["pid"]):
                o = scenario["outs"][e["pid"] - 1]
                for flag, pkg in ((o["rp"], e["pass"]), (o["rf"], e["fail"])):
                    f = os.path.join(src, pkg, "Main.java")
                    if flag and os.path.exists(f):
                        text += "%s:3: error: incompatible types: String cannot be converted to Integer\n    Integer x = \"a\";\n                ^\n" % f
                        n += 1
            if n:
                text += "%d error%s\n" % (n, "" if n == 1 else "s")
            return n == 0, text

        H.gen_program, H.check_oracle, H.update_stats, H.run_command = gen_program, check_oracle, update_stats, run_command
        H.validate_args(H.cli_args)
        H.pre_process_args(H.cli_args)
        if POOL:
            H.run_parallel()
        else:
            H.run()
        append(EVENTS, {"ev": "end", "saved": saved_dirs(), "tmp_left": os.path.exists(os.path.join(td, "tmp")),
                        "passed": H.STATS["totals"]["passed"], "failed": H.STATS["totals"]["failed"],
                        "other_entries": sorted(x for x in os.listdir(td) if not x.isdigit()) if os.path.isdir(td) else []})
except BaseException as e:  # noqa: BLE001
    out["exc"] = type(e).__name__ + ": " + str(e)[:200]
events = [json.loads(l) for l in open(EVENTS)] if os.path.exists(EVENTS) else []
shutil.rmtree(bugs, ignore_errors=True)
print(json.dumps({"events": events, "exc": out["exc"], "stdout_tail": buf.getvalue()[-300:]}))
