"""E step of C08: instantiate_type_constructor / instantiate_parameterized_function on TLC-generated declarations,
pre-assignments, variance choices and switch settings, under the choice oracle (all outcomes while small)."""
import json
import sys

import hlib
from src import utils
from src.ir import type_utils as tu, types as tp
from src.generators.config import cfg


def pool(T, lang, variant):
    ps = [T.decl[n] for n in ("Foo", "Bar", "Baz", "Abs", "Reg")] + [T.builtin(n) for n in ("Number", "Int", "String")]
    if variant:
        ps.append(T.decl["Foo"].get_type())                     # a bare type constructor among the available types
        if hasattr(T.factory, "get_primitive_types"):
            ps.append(T.factory.get_primitive_types()[2])       # a primitive (int)
    return ps


def run(case, lang, seed, max_leaves, k):
    q = case["id"]
    T = hlib.Table(case["ct"], case["order"], lang)
    case["ct"].update(hlib.real_builtin_entries(T.factory, case["ct"]))
    opt = q.get("opt") or {"isfun": False, "pecs": True, "dvf": False, "dv": False}
    tcon = T.factory.get_function_type(2) if q["sh"]["d"] == "F2" else T.decl["G"].get_type()
    tps = list(tcon.type_parameters)
    if q["sh"]["d"] == "F2":      # the declared variance of the built-in function type is the language's (an input)
        case["tps"] = [{"n": p.name, "v": hlib.VNAME[p.variance.value], "b": []} for p in tps]
    byname = {p.name: p for p in tps}
    oracle = hlib.ChoiceOracle(seed, max_leaves)
    saved, saved_dis = utils.random, (cfg.dis.use_site_variance, cfg.dis.use_site_contravariance)
    utils.random = oracle
    cfg.dis.use_site_variance, cfg.dis.use_site_contravariance = q["sw"]["disUse"], q["sw"]["disContra"]
    pre_terms = q["pre"] if isinstance(q["pre"], dict) else {}
    ch = q["choices"]
    chm = ch["m"] if isinstance(ch["m"], dict) else {}
    outs, excs, leaves = {}, [], 0
    try:
        def call():
            pre = {byname[n]: T.build(t) for n, t in pre_terms.items()}
            choices = {byname[n]: tuple(v) for n, v in chm.items()} if ch["on"] else None
            types = pool(T, lang, k % 2 == 1)
            if q["fn"]:
                m = tu.instantiate_parameterized_function(tps, types, type_var_map=pre or None)
                return [m[p] for p in tps], m
            pt, m = tu.instantiate_type_constructor(tcon, types, type_var_map=pre or None, variance_choices=choices,
                                                    enable_pecs=opt["pecs"], disable_variance_functions=opt["dvf"], disable_variance=opt["dv"])
            return pt.type_args, m
        for _, out in oracle.run_all(call):
            leaves += 1
            if isinstance(out, Exception):
                excs.append(type(out).__name__ + ": " + str(out)[:70])
                continue
            args, m = out
            rec = {"args": [hlib.ser(a) for a in args], "map": {p.name: hlib.ser(v) for p, v in m.items() if p.name in byname}}
            outs[json.dumps(rec, sort_keys=True)] = rec
    finally:
        utils.random = saved
        cfg.dis.use_site_variance, cfg.dis.use_site_contravariance = saved_dis
    ev = {"kind": "instantiate", "tps": case["tps"], "pre": pre_terms, "choices": {"on": ch["on"], "m": chm}, "sw": q["sw"], "fn": q["fn"], "opt": opt,
          "outs": list(outs.values()), "res": [], "exc": sorted(set(excs))[:3], "leaves": leaves,
          "argdesc": "%s%s pre=%s" % ("fn " if q["fn"] else "", json.dumps(q["sh"]), json.dumps(pre_terms))}
    return {"id": "c%d/%s" % (k, lang), "lang": lang, "ct": case["ct"], "events": [ev]}


def main():
    inp, outprefix, chunk, seed, max_leaves = sys.argv[1], sys.argv[2], int(sys.argv[3]), int(sys.argv[4]), int(sys.argv[5])
    cases = json.load(open(inp))
    out = [run(c, c["lang"], seed, max_leaves, c["k"]) for c in cases]
    print(json.dumps(hlib.emit_chunks(out, outprefix, chunk)))


main()
