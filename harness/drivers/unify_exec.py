"""E step of C10: run the real unify_types on every (target, pattern) pair of a TLC-generated table, both modes."""
import json
import sys

import hlib
from src.ir import type_utils as tu


def run(case, lang):
    T = hlib.Table(case["ct"], case["order"], lang)
    case["ct"].update(hlib.real_builtin_entries(T.factory, case["ct"]))
    targets = [T.build(u) for u in case["u"]]
    res, errs, calls = [], [], 0
    for j, pt in enumerate(case["ps"]):
        for i, tg in enumerate(targets):
            for same in (True, False):
                pat = T.build(pt)        # fresh pattern objects per call (variables are compared structurally)
                calls += 1
                try:
                    m = tu.unify_types(tg, pat, T.factory, same_type=same)
                except Exception as e:  # noqa: BLE001
                    errs.append([i + 1, j + 1, same, type(e).__name__])
                    continue
                if m:
                    try:
                        if any(v is None for v in m.values()):
                            raise ValueError("None image")
                        sigma = {k.name: hlib.ser(v) for k, v in m.items()}
                    except Exception as e:  # noqa: BLE001  (e.g. a None image)
                        errs.append([i + 1, j + 1, same, "unserialisable:" + type(e).__name__])
                        continue
                    res.append({"i": i + 1, "j": j + 1, "same": same, "sigma": sigma})
    return {"id": json.dumps(case["id"], sort_keys=True) + "/" + lang, "lang": lang, "ct": case["ct"], "u": case["u"], "ps": case["ps"],
            "res": res, "errs": errs, "calls": calls}


def main():
    inp, outprefix, chunk = sys.argv[1], sys.argv[2], int(sys.argv[3])
    cases = json.load(open(inp))
    out = [run(c, c["lang"]) for c in cases]
    print(json.dumps(hlib.emit_chunks(out, outprefix, chunk)))


main()
