"""Instrumented generation (harness-side wrapping, no source hook): call edges of the generator with depth bookkeeping."""
import json
import sys

import genlib


def instrument(Generator, cfg):
    """Wrap generate_expr and every gen_* / _gen_* routine of the Generator class. Returns the recorder."""
    rec = {"stack": [], "edges": {}, "leaf": {}, "restore_bad": [], "calls": 0, "maxdepth": 0}

    def wrap(name, fn):
        def w(self, *a, **k):
            rec["calls"] += 1
            d0 = self.depth
            rec["maxdepth"] = max(rec["maxdepth"], d0)
            if name == "generate_expr":
                expr_type = a[0] if a else k.get("expr_type")
                ol = a[1] if len(a) > 1 else k.get("only_leaves", False)
                xv = a[3] if len(a) > 3 else k.get("exclude_var", False)
                gb = a[4] if len(a) > 4 else k.get("gen_bottom", False)
                void = expr_type is not None and expr_type == self.bt_factory.get_void_type()
                frame = {"r": name, "d": d0, "ol": bool(ol), "xv": bool(xv), "void": bool(void), "gb": bool(gb)}
            else:
                frame = {"r": name, "d": d0}
            if rec["stack"]:
                par = rec["stack"][-1]
                if name == "generate_expr":
                    key = (par["r"], d0 - par["d"], bool(par.get("ol", False)), frame["ol"], frame["xv"], frame["void"])
                    rec["edges"][key] = rec["edges"].get(key, 0) + 1
                elif par["r"] == "generate_expr":
                    leafdepth = par["d"] >= cfg.limits.max_depth
                    key = (name, bool(leafdepth), par["ol"], par["void"], par["xv"])
                    rec["leaf"][key] = rec["leaf"].get(key, 0) + 1
            rec["stack"].append(frame)
            try:
                return fn(self, *a, **k)
            finally:
                rec["stack"].pop()
                if self.depth != d0:
                    rec["restore_bad"].append([name, d0, self.depth])
        return w
    for name in dir(Generator):
        if name == "generate_expr" or name.startswith("gen_") or name.startswith("_gen_") or name in ("generate_main_func",):
            fn = getattr(Generator, name)
            if callable(fn):
                setattr(Generator, name, wrap(name, fn))
    return rec


def main():
    lang, seeds, md = sys.argv[1], json.loads(sys.argv[2]), int(sys.argv[3])
    genlib.setup(lang, max_depth=md)
    from src.generators.generator import Generator
    from src.generators.config import cfg
    rec = instrument(Generator, cfg)

    def work():
        for s in seeds:
            genlib.generate(s)
    genlib.in_big_stack(work)
    print(json.dumps({"edges": [list(k) + [v] for k, v in sorted(rec["edges"].items())], "leaf": [list(k) + [v] for k, v in sorted(rec["leaf"].items())],
                      "restore_bad": rec["restore_bad"][:10], "calls": rec["calls"], "maxdepth": rec["maxdepth"]}))


main()
