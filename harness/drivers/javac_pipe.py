"""EV for C02: generated and erased Java programs -> real JavaTranslator -> files laid out as the driver does -> real javac, alone
and in TLC-chosen batches; javac's output is attributed to files by the real JavaCompiler.analyze_compiler_output."""
import json
import re
import os
import shutil
import subprocess
import sys
import tempfile

import genlib

WORDS = ["alpha", "bravo", "charlie", "delta", "echo", "foxtrot", "golf", "hotel", "india", "juliet", "kilo", "lima"]


def main():
    sw, seeds, sched_file, out = json.loads(sys.argv[1]), json.loads(sys.argv[2]), sys.argv[3], sys.argv[4]
    genlib.setup("java", dis_use=sw["disUse"], dis_contra=sw["disContra"], no_bounds=sw["noBounds"], no_param_fn=sw["noParamFn"])
    from src.compilers.java import JavaCompiler
    schedules = json.load(open(sched_file))
    root = tempfile.mkdtemp(prefix="hjavac")

    def work():
        texts = []
        for seed in seeds:
            p = genlib.generate(seed)
            e, _ = genlib.erase(p, seed)
            tr = None          # one translator object for a program and its mutated variant, as the driver uses it (--keep-all)
            for prog in (p, e):
                pkg = WORDS[len(texts) % len(WORDS)] + str(len(texts))
                if tr is None:
                    tr = genlib.translator("java", package="src." + pkg)
                else:
                    tr.package = "src." + pkg
                texts.append((pkg, genlib.translate(prog, tr=tr)))
        return texts
    texts = genlib.in_big_stack(work)

    def compile_batch(k, batch):
        d = os.path.join(root, "b%d" % k, "src")
        files = []
        for f in batch:
            pkg, text = texts[f - 1]
            os.makedirs(os.path.join(d, pkg))
            path = os.path.join(d, pkg, "Main.java")
            open(path, "w").write(text)
            files.append(path)
        p = subprocess.run(["javac", "-J-XX:+UseSerialGC", "-J-XX:TieredStopAtLevel=1", "-J-Xshare:auto", "-J-XX:CICompilerCount=1", "-nowarn"] + files, stdout=subprocess.PIPE, stderr=subprocess.STDOUT, text=True, cwd=os.path.dirname(d))
        comp = JavaCompiler(d)
        failed, _ = comp.analyze_compiler_output(p.stdout)
        inv = {path: f for path, f in zip(files, batch)}
        res = {"batch": batch, "failed": sorted({inv.get(x, 0) for x in (failed or {})}), "crash": bool(comp.crash_msg), "rc": p.returncode,
               "out": p.stdout[:600] if (failed or comp.crash_msg or p.returncode) else ""}
        if res["out"]:
            # the generic class / interface headers of the batch (for the known-finding shape that names a type variable)
            res["headers"] = sorted({m.group(0)[:400] for f in batch for m in re.finditer(r"(?m)^.*\b(?:class|interface)\s+\w+<[^{]*", texts[f - 1][1])})[:60]
        shutil.rmtree(os.path.join(root, "b%d" % k), ignore_errors=True)
        return res
    n = len(texts)
    k = 0
    singles = []
    for f in range(1, n + 1):
        singles.append(compile_batch(k, [f]))
        k += 1
    runs = []
    for si, sched in enumerate(schedules):
        events = list(singles)
        for b in sched:
            b = [x for x in b if x <= n]
            if len(b) >= 2:
                events.append(compile_batch(k, b))
                k += 1
        runs.append({"id": "java/%s/%s/s%d" % ("".join("1" if sw[x] else "0" for x in ("disUse", "disContra", "noBounds", "noParamFn")), seeds[0], si),
                     "expect_pass": list(range(1, n + 1)), "events": events, "nfiles": n})
    shutil.rmtree(root, ignore_errors=True)
    json.dump({"runs": runs}, open(out, "w"), separators=(",", ":"))
    print(json.dumps([out]))


main()
