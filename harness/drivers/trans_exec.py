"""E step of C11: translation histories on real programs (generated, erased, overwritten, another seed) with reused /
other-language / fresh translator objects; text digests and program snapshots (pickle) before and after every call."""
import hashlib
import json
import pickle
import sys

import genlib

OTHER = {"kotlin": "java", "java": "kotlin", "groovy": "scala", "scala": "groovy"}


def dig(b):
    return hashlib.sha1(b if isinstance(b, bytes) else b.encode()).hexdigest()[:12]


def main():
    lang, seeds, hist_file, out = sys.argv[1], json.loads(sys.argv[2]), sys.argv[3], sys.argv[4]
    genlib.setup(lang)
    hists = json.load(open(hist_file))

    def work():
        cases = []
        for seed in seeds:
            p = genlib.generate(seed)
            e, _ = genlib.erase(p, seed)
            w, tw = genlib.overwrite(e, seed)
            q = genlib.generate(seed + 1000)
            progs = {"p": p, "e": e, "w": w, "q": q}
            for hi, h in enumerate(hists):
                trs = {"A": genlib.translator(lang), "B": genlib.translator(OTHER[lang])}
                steps = []
                for c in h:
                    tr = trs.get(c["tr"]) or genlib.translator(lang)
                    prog = progs[c["prog"]]
                    before = dig(pickle.dumps(prog))
                    try:
                        text = dig(genlib.translate(prog, tr=tr))
                    except Exception:  # noqa: BLE001
                        text = ""
                    after = dig(pickle.dumps(prog))
                    steps.append({"tr": c["tr"], "prog": c["prog"], "text": text, "before": before, "after": after})
                cases.append({"id": "%s/%d/h%d" % (lang, seed, hi), "steps": steps})
        return cases
    cases = genlib.in_big_stack(work)
    json.dump({"cases": cases}, open(out, "w"), separators=(",", ":"))
    print(json.dumps([out]))


main()
