"""E step of C11: translation histories on real programs (generated, erased, overwritten, another seed) with reused /
other-language / fresh translator objects; text digests and program snapshots (pickle) before and after every call."""
import copy
import hashlib
import json
import pickle
import time
import sys

import genlib

OTHER = {"kotlin": "java", "java": "kotlin", "groovy": "scala", "scala": "groovy"}
PKG = {"x": "src.x", "y": "src.y"}


def dig(b):
    return hashlib.sha1(b if isinstance(b, bytes) else b.encode()).hexdigest()[:12]


def main():
    lang, seeds, hist_file, out = sys.argv[1], json.loads(sys.argv[2]), sys.argv[3], sys.argv[4]
    budget = int(sys.argv[5]) if len(sys.argv) > 5 else 10 ** 9        # seconds per base program
    genlib.setup(lang)
    hists = json.load(open(hist_file))

    skipped = []

    def work():
        cases = []
        for seed in seeds:
            p = genlib.generate(seed)
            e, _ = genlib.erase(p, seed)
            w, tw = genlib.overwrite(e, seed)
            from src.generators.config import cfg
            old = cfg.limits.fn.max_params
            cfg.limits.fn.max_params = 5          # q: a program from the same generator under wider limits (more function arities)
            try:
                q = genlib.generate(seed + 1000)
            finally:
                cfg.limits.fn.max_params = old
            base = {"p": p, "e": e, "w": w, "q": q}
            # the texts every later call must agree with: taken first in the process, each through a fresh translator
            pre = []
            for name in ("p", "e", "w", "q"):
                for lg, lname in ((lang, "own"), (OTHER[lang], "other")):
                    for pk in ("x", "y"):
                        try:
                            pre.append({"lang": lname, "pkg": pk, "prog": name, "text": dig(genlib.translate(base[name], tr=genlib.translator(lg, PKG[pk])))})
                        except Exception:  # noqa: BLE001
                            pass
            todo = hists
            started = time.time()
            for hi, h in enumerate(todo):
                # work bound: in-place mutations re-run the real type erasure (a powerset search) for every history; a base program
                # for which that is slow takes a prefix of the history list (the exhaustive short histories come first)
                if hi >= 30 and time.time() - started > budget:
                    skipped.append([seed, len(todo) - hi])
                    break
                # histories that mutate a program in place get their own copies of the program objects
                progs = dict(base)
                for name in {c["prog"] for c in h if c["op"] == "mut"}:
                    progs[name] = copy.deepcopy(base[name])
                nmut = {"p": 0, "q": 0}
                trs = {"A": genlib.translator(lang, PKG["x"]), "B": genlib.translator(OTHER[lang], PKG["x"])}
                cur = {"A": "x", "B": "x"}
                steps = []
                for c in h:
                    if c["op"] == "mut":
                        # the pipeline's own in-place mutation: first the erasure, then the overwriting, on the same object
                        from src.transformations.type_erasure import TypeErasure
                        from src.transformations.type_overwriting import TypeOverwriting
                        cls = TypeErasure if nmut[c["prog"]] == 0 else TypeOverwriting
                        nmut[c["prog"]] += 1
                        try:
                            genlib.reseed(seed + 7)
                            tf = cls(progs[c["prog"]], lang, None, {})
                            tf.transform()
                            progs[c["prog"]] = tf.result()
                            ok = "mutated"
                        except Exception:  # noqa: BLE001
                            ok = ""
                        steps.append({"op": "mut", "tr": "-", "prog": c["prog"], "text": ok, "before": "", "after": ""})
                        continue
                    if c["op"] == "pkg":
                        # what the driver does for the incorrect program of an iteration: re-target the live translator
                        trs[c["tr"]].package = PKG[c["prog"]]
                        cur[c["tr"]] = c["prog"]
                        steps.append({"op": "pkg", "tr": c["tr"], "prog": c["prog"], "text": "", "before": "", "after": ""})
                        continue
                    tr = trs.get(c["tr"]) or genlib.translator(lang, PKG[cur["A"]])
                    prog = progs[c["prog"]]
                    before = dig(pickle.dumps(prog))
                    try:
                        text = dig(genlib.translate(prog, tr=tr))
                    except Exception:  # noqa: BLE001
                        text = ""
                    after = dig(pickle.dumps(prog))
                    steps.append({"op": "tr", "tr": c["tr"], "prog": c["prog"], "text": text, "before": before, "after": after})
                    if c["tr"] == "A":
                        # reference call: the same program object through a fresh translator (an "F" step of the model)
                        try:
                            ref = dig(genlib.translate(prog, tr=genlib.translator(lang, PKG[cur["A"]])))
                        except Exception:  # noqa: BLE001
                            ref = ""
                        steps.append({"op": "tr", "tr": "F", "prog": c["prog"], "text": ref, "before": after, "after": dig(pickle.dumps(prog)), "ref": True})
                cases.append({"id": "%s/%d/h%d" % (lang, seed, hi), "steps": steps, "pre": pre})
        return cases
    cases = genlib.in_big_stack(work)
    json.dump({"cases": cases, "skipped": skipped}, open(out, "w"), separators=(",", ":"))
    print(json.dumps([out]))


main()
