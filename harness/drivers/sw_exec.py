"""EV for C17: generate programs under one (language, switch setting) - the switches wired through src/args.py exactly as
the CLI does - and record every type occurrence and type-parameter declaration.  Every WildCardType carries the name of the
routine that constructed it (provenance), attached by wrapping the constructor."""
import json
import sys

import genlib


def main():
    lang, sw, seeds, out = sys.argv[1], json.loads(sys.argv[2]), json.loads(sys.argv[3]), sys.argv[4]
    genlib.setup(lang, dis_use=sw["disUse"], dis_contra=sw["disContra"], no_bounds=sw["noBounds"], no_param_fn=sw["noParamFn"])
    import pser
    from src.ir import types as tp
    orig_init = tp.WildCardType.__init__

    def init(self, bound=None, variance=tp.Invariant):
        orig_init(self, bound, variance)
        f = sys._getframe(1)
        while f is not None and f.f_code.co_name in ("__init__", "init", "__deepcopy__", "_reconstruct", "deepcopy"):
            f = f.f_back
        prov = f.f_code.co_name if f is not None else "?"
        if prov == "_get_type_substitution":
            # a substituted copy of an existing projection keeps the provenance of the original
            src = f.f_locals.get("etype")
            prov = getattr(src, "_prov", prov)
        self._prov = prov
    tp.WildCardType.__init__ = init

    def provs(t, acc):
        if isinstance(t, tp.WildCardType):
            acc.add(getattr(t, "_prov", "?"))
            if t.bound is not None:
                provs(t.bound, acc)
        elif isinstance(t, tp.ParameterizedType):
            for a in t.type_args:
                provs(a, acc)
        elif isinstance(t, tp.TypeParameter) and t.bound is not None:
            provs(t.bound, acc)
        return acc

    def work():
        progs = []
        for seed in seeds:
            exc = ""
            try:
                p = genlib.generate(seed)
                # re-walk with the real objects to attach provenance to each occurrence
                occ, tparams = pser.type_occurrences(p)
                objs = []
                orig_ser = pser.ser_t
                pser_T = []

                def ser_spy(t):
                    pser_T.append(t)
                    return orig_ser(t)
                pser.ser_t = ser_spy
                try:
                    pser_T.clear()
                    occ, tparams = pser.type_occurrences(p)
                finally:
                    pser.ser_t = orig_ser
            except Exception as e:  # noqa: BLE001
                exc, occ, tparams, pser_T = type(e).__name__ + ": " + str(e)[:100], [], [], []
            # pser.type_occurrences calls ser_t exactly once per occurrence (plus once per bound via opt): match by order
            rec = []
            ti = iter(pser_T)
            for where, term in occ:
                rec.append({"where": where, "t": term, "prov": "?"})
            # provenance: recompute per occurrence from the objects in the same order
            k = 0
            for t in pser_T:
                if k < len(rec) and hlib_ser_eq(t, rec[k]["t"]):
                    rec[k]["prov"] = ",".join(sorted(provs(t, set()))) or "-"
                    k += 1
            for r in rec:
                if r["prov"] == "?":
                    r["prov"] = "-"
            for q in tparams:
                q["prov"] = "-"
            progs.append({"id": "%s/%s/%d" % (lang, swname(sw), seed), "lang": lang, "sw": sw, "occ": rec, "tparams": tparams, "exc": exc})
        return progs

    import hlib

    def hlib_ser_eq(t, term):
        try:
            return hlib.ser(t) == term
        except Exception:  # noqa: BLE001
            return False
    progs = genlib.in_big_stack(work)
    json.dump({"programs": progs}, open(out, "w"), separators=(",", ":"))
    print(json.dumps([out]))


def swname(sw):
    return "".join("1" if sw[k] else "0" for k in ("disUse", "disContra", "noBounds", "noParamFn"))


main()
