"""E step of C19: run every function of src/graph_utils.py on TLC-generated digraphs and record the results."""
import json
import sys

from src import graph_utils as gu
from src.analysis.type_dependency_analysis import Edge


def container(succ, variant):
    if variant == "list":
        return sorted(succ)
    if variant == "rlist":
        return sorted(succ, reverse=True)
    return set(succ)


def run(case, variant):
    n = case["n"]
    V = range(1, n + 1)
    g = {u: container(case["g"][u - 1], variant) for u in V}
    # dfs works on Edge lists, as built by the type-dependency analysis; vertices without out-edges may be missing as keys
    eg = {u: [Edge(v, (u + v) % 2) for v in container(case["g"][u - 1], "list" if variant == "set" else variant)] for u in V}
    if variant == "rlist":
        eg = {u: es for u, es in eg.items() if es}
    res = []
    for u in V:
        res.append({
            "reachable": [gu.reachable(g, u, v) for v in V],
            "bi_reachable": [gu.bi_reachable(g, u, v) for v in V],
            "connected": [gu.connected(g, u, v) for v in V],
            "find_all_reachable": sorted(gu.find_all_reachable(g, u)),
            "find_all_bi_reachable": sorted(gu.find_all_bi_reachable(g, u)),
            "find_all_connected": sorted(gu.find_all_connected(g, u)),
            "find_sources": list(gu.find_sources(g, u)),
            "find_all_paths": gu.find_all_paths(g, u),
            "find_longest_paths": gu.find_longest_paths(g, u),
            "dfs": sorted(gu.dfs(eg, u)),
            "none_reachable": [gu.none_reachable(g, u, z) for z in V],
            "none_connected": [gu.none_connected(g, u, z) for z in V],
        })
    return {"id": case["id"] + "/" + variant, "n": n, "g": [sorted(s) for s in case["g"]], "res": res}


def main():
    inp, outprefix, chunk = sys.argv[1], sys.argv[2], int(sys.argv[3])
    cases = json.load(open(inp))
    variants = ("list", "rlist", "set")
    out, k, files = [], 0, []
    for i, cs in enumerate(cases):
        out.append(run(cs, "list"))
        out.append(run(cs, variants[1 + i % 2]))
        if len(out) >= chunk:
            path = "%s.%d.json" % (outprefix, k)
            json.dump({"cases": out}, open(path, "w"), separators=(",", ":"))
            files.append(path)
            out, k = [], k + 1
    if out:
        path = "%s.%d.json" % (outprefix, k)
        json.dump({"cases": out}, open(path, "w"), separators=(",", ":"))
        files.append(path)
    print(json.dumps(files))


main()
