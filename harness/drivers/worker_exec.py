"""EV for C18 (histories): one process plays a pool worker - the real hephaestus.gen_program (real ProgramProcessor, generator,
type erasure, type overwriting, translator, files written) is called for N consecutive program ids; nothing is reset from the
harness between programs.  A program whose ProgramRes is `failed` is an internal failure (its message is recorded)."""
import contextlib
import io
import json
import random
import shutil
import sys
import tempfile

lang, md, n, seed, out = sys.argv[1], int(sys.argv[2]), int(sys.argv[3]), int(sys.argv[4]), sys.argv[5]
bugs = tempfile.mkdtemp(prefix="hwk")
random.seed(0)
sys.argv = ["hephaestus.py", "--bugs", bugs, "--name", "w", "--language", lang, "--iterations", str(n), "-t", "1", "--max-depth", str(md), "--batch", "1"]
sys.setrecursionlimit(20000)
buf = io.StringIO()
with contextlib.redirect_stdout(buf):
    import hephaestus as H
from src import utils
import genlib


def work():
    programs = []
    utils.random.r.seed(seed)
    for pid in range(1, n + 1):
        d = tempfile.mkdtemp(prefix="hbatch")
        with contextlib.redirect_stdout(buf):
            r = H.gen_program(pid, d, ("p%da" % pid, "p%db" % pid))
        shutil.rmtree(d, ignore_errors=True)
        shutil.rmtree(H.cli_args.test_directory, ignore_errors=True)
        programs.append({"id": "%s/worker/md%d/%d#%d" % (lang, md, seed, pid),
                         "stages": [{"stage": "gen_program", "exc": ("%s" % (r.stats.get("error") or "failed"))[:120] if r.failed else ""}],
                         "edges": [], "leaf": [], "restore_bad": [], "calls": 0, "maxdepth": 0, "maxnest_paid": 0, "max_depth": md})
    return programs


programs = genlib.in_big_stack(work)
shutil.rmtree(bugs, ignore_errors=True)
json.dump({"programs": programs}, open(out, "w"), separators=(",", ":"))
print(json.dumps([out]))
