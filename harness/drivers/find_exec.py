"""E step of C09: find_subtypes / find_irrelevant_type on TLC-generated tables and query types, under the choice
oracle (every outcome of the random choices inside the searches while the choice tree is small, sampled beyond)."""
import json
import sys

import hlib
from src import utils
from src.ir import type_utils as tu


def pool(T, case):
    return [T.decl[n] for n in case["order"]] + [T.builtin(n) for n in ("Any", "Number", "Int", "String")]


def run(case, lang, seed, max_leaves):
    T = hlib.Table(case["ct"], case["order"], lang)
    case["ct"].update(hlib.real_builtin_entries(T.factory, case["ct"]))
    if "Array" in case["ct"]:       # the language's own declaration of arrays is an input (Java / Groovy: covariant); specialised arrays are Kotlin's
        v = T.factory.get_array_type().type_parameters[0].variance.value
        case["ct"]["Array"]["tp"][0]["v"] = hlib.VNAME[v] if v else "inv"
        if lang != "kotlin":
            case["queries"] = [qi for qi in case["queries"] if "SArray" not in json.dumps(case["u"][qi - 1])]
            case["vqueries"] = [q for q in case.get("vqueries", []) if "SArray" not in json.dumps(q)]
    oracle = hlib.ChoiceOracle(seed, max_leaves)
    saved = utils.random
    utils.random = oracle
    events = []

    def irrelevant(q):
        res, excs, leaves, saw_none = {}, [], 0, False

        def call2():
            return tu.find_irrelevant_type(T.build(q), pool(T, case), T.factory)
        for _, out in oracle.run_all(call2):
            leaves += 1
            if isinstance(out, Exception):
                excs.append(type(out).__name__ + ": " + str(out)[:60])
            elif out is None:
                saw_none = True
            else:
                t = hlib.ser(out)
                res[json.dumps(t, sort_keys=True)] = t
        events.append({"kind": "find_irrelevant", "T": q, "include_self": False, "concrete_only": False, "res": list(res.values()),
                       "self_in": "none", "saw_none": saw_none, "exc": sorted(set(excs))[:3], "leaves": leaves})
    try:
        for qi in case["queries"]:
            q = case["u"][qi - 1]
            for inc, conc in ((False, True), (True, True), (True, False), (False, False)):
                res, selfs, excs, leaves = {}, set(), [], 0
                def call():
                    return tu.find_subtypes(T.build(q), pool(T, case), include_self=inc, concrete_only=conc)
                for _, out in oracle.run_all(call):
                    leaves += 1
                    if isinstance(out, Exception):
                        excs.append(type(out).__name__ + ": " + str(out)[:60])
                        continue
                    terms = [hlib.ser(r) for r in out]
                    selfs.add(q in terms)
                    for t in terms:
                        res[json.dumps(t, sort_keys=True)] = t
                events.append({"kind": "find_subtypes", "T": q, "include_self": inc, "concrete_only": conc, "res": list(res.values()),
                               "self_in": "mixed" if len(selfs) > 1 else ("all" if selfs == {True} else ("none" if selfs == {False} else "n/a")),
                               "saw_none": False, "exc": sorted(set(excs))[:3], "leaves": leaves})
            irrelevant(q)
        # type variables as queries (read as their bound, transitively): X : q and A : X : q
        for q in case.get("vqueries", []):
            irrelevant(q)
    finally:
        utils.random = saved
    return {"id": json.dumps(case["id"], sort_keys=True) + "/" + lang, "lang": lang, "ct": case["ct"], "events": events}


def main():
    inp, outprefix, chunk, seed, max_leaves = sys.argv[1], sys.argv[2], int(sys.argv[3]), int(sys.argv[4]), int(sys.argv[5])
    cases = json.load(open(inp))
    out = [run(c, c["lang"], seed, max_leaves) for c in cases]
    print(json.dumps(hlib.emit_chunks(out, outprefix, chunk)))


main()
