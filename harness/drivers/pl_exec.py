"""E step for HPipeline: the real gen_program / process_cp_transformations / process_ncp_transformations / ProgramProcessor of one
iteration per scenario.  Scripted: the generator (an empty program), the two transformation classes (they mark the program object
in place, report is_transformed, or raise, as the scenario says).  Observed: every file below the batch directory and the session
directory (marks in the text, marks in the pickled program next to it, package clause) and the returned ProgramRes."""
import contextlib
import io
import json
import os
import re
import shutil
import sys
import tempfile

inp, out = sys.argv[1], sys.argv[2]
scenarios = json.load(open(inp))
bugs = tempfile.mkdtemp(prefix="hpl")
sys.argv = ["hephaestus.py", "--bugs", bugs, "--name", "s", "--language", "java", "--iterations", "1", "-t", "1"]
buf = io.StringIO()
with contextlib.redirect_stdout(buf):
    import hephaestus as H
from src import utils
from src.ir import ast
from src.ir import java_types as jt
from src.ir import types as tp
from src.ir.context import Context
from src.modules.processor import ProgramProcessor
from src.transformations.base import Transformation

CUR = {}
FAULT = 99


def mark(program, k):
    d = ast.VariableDeclaration("marker_%d" % k, ast.IntegerConstant(k, jt.Integer), var_type=jt.Integer, is_final=True)
    program.context.add_var(ast.GLOBAL_NAMESPACE, d.name, d)


class TypeErasure(Transformation):          # named after the real ones: the options and the schedule are keyed by class name
    CORRECTNESS_PRESERVING = True

    def transform(self):
        CUR["step"] += 1
        k = CUR["step"]
        if CUR["sc"]["raiseAt"] == k:
            raise RuntimeError("scripted failure of step %d" % k)
        if CUR["sc"]["tr"][k - 1] == "vis":
            mark(self.program, k)
            self.is_transformed = True
        elif CUR["sc"]["tr"][k - 1] == "sil":      # a change of the program that no translation shows (a type registered in the context)
            self.program.context.add_type(ast.GLOBAL_NAMESPACE, "silent_%d" % k, tp.TypeParameter("silent_%d" % k))
            self.is_transformed = True


class TypeOverwriting(Transformation):
    CORRECTNESS_PRESERVING = False

    def transform(self):
        if CUR["sc"]["inj"] == "raise":
            raise RuntimeError("scripted failure of the injection")
        if CUR["sc"]["inj"] == "ok":
            mark(self.program, FAULT)
            self.is_transformed = True
            self.error_injected = "injected"


ProgramProcessor.CP_TRANSFORMATIONS = {"TypeErasure": TypeErasure}
ProgramProcessor.NCP_TRANSFORMATIONS = {"TypeOverwriting": TypeOverwriting}


class Proc(ProgramProcessor):
    def generate_program(self):
        if CUR["sc"]["genRaises"]:
            raise RuntimeError("scripted failure of the generator")
        return ast.Program(Context(), "java"), True


H.ProgramProcessor = Proc
td = H.cli_args.test_directory


def marks_of_text(path):
    return sorted(int(x) for x in set(re.findall(r"marker_(\d+)", open(path).read())))


def marks_of_bin(path):
    p = utils.load_program(path)
    return sorted([int(n.split("_")[1]) for n in p.context.get_vars(ast.GLOBAL_NAMESPACE, only_current=True) if n.startswith("marker_")] +
                  [int(n.split("_")[1]) for n in p.context.get_types(ast.GLOBAL_NAMESPACE, only_current=True) if n.startswith("silent_")])


def name_of(rel, root):
    parts = rel.split(os.sep)
    if root == "batch":
        return "batch/" + parts[0]
    if parts[0] == "tmp":
        return "tmp/" + parts[-1].split(".")[0]
    if parts[0] == "generator":
        return "generator/" + parts[-1].split(".")[0]
    if parts[0] == "transformations":
        return "transformations/" + parts[2]
    return "other/" + rel


runs = []
for sc in scenarios:
    CUR.update(sc=sc, step=0)
    H.cli_args.keep_all = sc["keepAll"]
    H.cli_args.only_correctness_preserving_transformations = sc["onlyCP"]
    H.cli_args.transformations = sc["n"]
    shutil.rmtree(td, ignore_errors=True)
    batch = tempfile.mkdtemp(prefix="hbatch")
    with contextlib.redirect_stdout(buf):
        r = H.gen_program(7, batch, ("p0", "p1"))
    files = []
    for root, base in (("batch", batch), ("session", td)):
        for dp, _, fn in os.walk(base):
            for f in fn:
                if not f.endswith(".java"):
                    continue
                p = os.path.join(dp, f)
                text = open(p).read()
                pk = re.findall(r"^package src\.p(\d);", text, re.M)
                files.append({"path": name_of(os.path.relpath(p, base), root), "text": marks_of_text(p),
                              "bin": marks_of_bin(p + ".bin") if os.path.exists(p + ".bin") else [-1], "pkg": int(pk[0]) if pk else -1})
    st = r.stats
    progs = []
    for path, oracle in (st.get("programs") or {}).items():
        progs.append([name_of(os.path.relpath(path, batch), "batch"), bool(oracle)])
    runs.append({"sc": sc, "files": files, "failed": bool(r.failed), "ntrans": len(st["transformations"]), "error": st["error"] or "", "programs": progs})
    shutil.rmtree(batch, ignore_errors=True)
shutil.rmtree(bugs, ignore_errors=True)
json.dump({"runs": runs}, open(out, "w"))
print(json.dumps([out]))
