"""EV for C12: translate generated / erased / overwritten programs with the real translators, count the textual probes."""
import json
import sys

import genlib


def main():
    lang, sw, seeds, out = sys.argv[1], json.loads(sys.argv[2]), json.loads(sys.argv[3]), sys.argv[4]
    genlib.setup(lang, dis_use=sw["disUse"], dis_contra=sw["disContra"], no_bounds=sw["noBounds"], no_param_fn=sw["noParamFn"])
    import pser
    import scan
    import surface
    swn = "".join("1" if sw[k] else "0" for k in ("disUse", "disContra", "noBounds", "noParamFn"))

    def probes(a):
        ps = set()
        depth = 0
        for e in a["ev"]:
            if e["ev"] == "VarDecl":
                ps.add(("var_untyped_top" if depth == 0 else "var_untyped_local", e["name"]))
            if e["ev"] == "Exit" and e["kind"] == "Fun" and e.get("owner") == "local":
                ps.add(("closure_untyped", e["name"]))
                ps.add(("closure_typed", e["name"]))
            if e["ev"] == "Enter":
                depth += 1
            elif e["ev"] == "Exit":
                depth -= 1
            if e["ev"] == "Enter" and e["kind"] == "Class":
                ps.add(("class", e["name"]))
            elif e["ev"] == "Enter" and e["kind"] == "Fun":
                ps.add(("fun", e["name"]))
            elif e["ev"] in ("VarDecl", "FieldDecl"):
                ps.add(("var_typed", e["name"]))
                if e["ev"] == "VarDecl":
                    ps.add(("var_untyped", e["name"]))
            elif e["ev"] == "New" and e["t"]["a"]:
                ps.add(("new_inferred", e["t"]["n"]))
            elif e["ev"] == "Const" and e["lit"] == "string":
                ps.add(("str", e["text"]))
            elif e["ev"] == "Const" and e["lit"] in ("int", "real"):
                e["abs"] = e["text"].lstrip("-")
                ps.add(("lit", e["abs"]))
            elif e["ev"] == "BinOp":
                ps.add(("op", e["op"]))
            elif e["ev"] == "ParamDecl":
                ps.add(("param", e["name"]))
            elif e["ev"] == "Call" and e["targs"]:
                ps.add(("call_targs", e["name"]))
        ps.add(("balanced", ""))
        return sorted(ps)

    def work():
        progs = []
        for seed in seeds:
            try:
                p = genlib.generate(seed)
                e, _ = genlib.erase(p, seed)
                w, tw = genlib.overwrite(e, seed + 2)
            except Exception:  # noqa: BLE001   (C18's business)
                continue
            tr = genlib.translator(lang)      # one translator object for the three programs of a seed, as the driver uses it
            for tag, prog in (("generated", p), ("erased", e), ("overwritten", w)):
                a = pser.ser_program(prog)
                text = genlib.translate(prog, tr=tr)
                tps = sorted({("fun_tparam" if ev["kind"] == "Fun" else "class_tparam", ev["name"], t["n"])
                              for ev in a["ev"] if ev["ev"] == "Enter" and ev["kind"] in ("Fun", "Class") for t in ev["tps"]})
                a.update(id="%s/%s/%d/%s" % (lang, swn, seed, tag), counts=[[k, n, scan.count(lang, text, k, n)] for k, n in probes(a)],
                         tcounts=[[k, o, t, scan.count_tparam(lang, text, k, o, t)] for k, o, t in tps])
                del a["ct"]
                del a["g"]
                a["ct"] = {c: (v if v["kind"] != "builtin" else {"tp": v["tp"], "kind": "builtin"}) for c, v in pser.ser_program(prog, walk=False)["ct"].items()}
                for v in a["ct"].values():
                    v.pop("funs", None)
                a["surface"] = surface.surface(lang, text)
                progs.append(a)
        return progs
    progs = genlib.in_big_stack(work)
    json.dump({"progs": progs}, open(out, "w"), separators=(",", ":"))
    print(json.dumps([out]))


main()
