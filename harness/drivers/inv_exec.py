"""EV for C12: translate generated / erased / overwritten programs with the real translators, count the textual probes."""
import json
import sys

import genlib


def main():
    lang, sw, seeds, out = sys.argv[1], json.loads(sys.argv[2]), json.loads(sys.argv[3]), sys.argv[4]
    SHAPES = sys.argv[5] if len(sys.argv) > 5 else None          # (genlib.setup rewrites sys.argv)
    genlib.setup(lang, dis_use=sw["disUse"], dis_contra=sw["disContra"], no_bounds=sw["noBounds"], no_param_fn=sw["noParamFn"])
    import pser
    import scan
    import surface
    swn = "".join("1" if sw[k] else "0" for k in ("disUse", "disContra", "noBounds", "noParamFn"))

    def probes(a):
        ps = set()
        depth = 0
        for e in a["ev"]:
            if e["ev"] == "VarDecl":
                ps.add(("var_untyped_top" if depth == 0 else "var_untyped_local", e["name"]))
            if e["ev"] == "Exit" and e["kind"] == "Fun" and e.get("owner") == "local":
                ps.add(("closure_untyped", e["name"]))
                ps.add(("closure_typed", e["name"]))
            if e["ev"] == "Enter":
                depth += 1
            elif e["ev"] == "Exit":
                depth -= 1
            if e["ev"] == "Enter" and e["kind"] == "Class":
                ps.add(("class", e["name"]))
            elif e["ev"] == "Enter" and e["kind"] == "Fun":
                ps.add(("fun", e["name"]))
            elif e["ev"] in ("VarDecl", "FieldDecl"):
                ps.add(("var_typed", e["name"]))
                if e["ev"] == "VarDecl":
                    ps.add(("var_untyped", e["name"]))
            elif e["ev"] == "New" and e["t"]["a"]:
                ps.add(("new_inferred", e["t"]["n"]))
            elif e["ev"] == "Const" and e["lit"] == "string":
                ps.add(("str", e["text"]))
            elif e["ev"] == "Const" and e["lit"] in ("int", "real"):
                e["abs"] = e["text"].lstrip("-")
                ps.add(("lit", e["abs"]))
            elif e["ev"] == "BinOp":
                ps.add(("op", e["op"]))
            elif e["ev"] == "ParamDecl":
                ps.add(("param", e["name"]))
            elif e["ev"] == "Call" and e["targs"]:
                ps.add(("call_targs", e["name"]))
        ps.add(("balanced", ""))
        return sorted(ps)

    def work():
        progs = []
        for seed in seeds:
            try:
                p = genlib.generate(seed)
                e, _ = genlib.erase(p, seed)
                w, tw = genlib.overwrite(e, seed + 2)
            except Exception:  # noqa: BLE001   (C18's business)
                continue
            tr = genlib.translator(lang)      # one translator object for the three programs of a seed, as the driver uses it
            for tag, prog in (("generated", p), ("erased", e), ("overwritten", w)):
                a = pser.ser_program(prog)
                text = genlib.translate(prog, tr=tr)
                tps = sorted({("fun_tparam" if ev["kind"] == "Fun" else "class_tparam", ev["name"], t["n"])
                              for ev in a["ev"] if ev["ev"] == "Enter" and ev["kind"] in ("Fun", "Class") for t in ev["tps"]})
                a.update(id="%s/%s/%d/%s" % (lang, swn, seed, tag), counts=[[k, n, scan.count(lang, text, k, n)] for k, n in probes(a)],
                         tcounts=[[k, o, t, scan.count_tparam(lang, text, k, o, t)] for k, o, t in tps])
                del a["ct"]
                del a["g"]
                a["ct"] = {c: (v if v["kind"] != "builtin" else {"tp": v["tp"], "kind": "builtin"}) for c, v in pser.ser_program(prog, walk=False)["ct"].items()}
                for v in a["ct"].values():
                    v.pop("funs", None)
                a["surface"] = surface.surface(lang, text)
                progs.append(a)
        return progs
    def expr_work():
        """expression shapes (spec/HExprGen.tla): val res = (L op R) over fixed declarations, as real programs"""
        from src.ir import ast, types as tp, BUILTIN_FACTORIES
        from src.ir import context as ctx
        shapes = json.load(open(SHAPES))
        bt = BUILTIN_FACTORIES[lang]
        G = ast.GLOBAL_NAMESPACE
        Int = bt.get_integer_type
        progs = []
        for k, sh in enumerate(shapes):
            c = ctx.Context()
            fld = ast.FieldDeclaration("fld", Int(), is_final=True)
            bx = ast.ClassDeclaration("Bx", [], ast.ClassDeclaration.REGULAR, fields=[fld], functions=[], is_final=True)
            pp = ast.ParameterDeclaration("p", Int())
            fn = ast.FunctionDeclaration("fn", [pp], Int(), ast.Variable("p"), ast.FunctionDeclaration.FUNCTION)
            vs = [ast.VariableDeclaration("v%d" % i, ast.IntegerConstant(i + 1, Int()), is_final=True, var_type=Int()) for i in (0, 1)]
            c.add_class(G, "Bx", bx)
            c.add_var(G + ("Bx",), "fld", fld)
            c.add_func(G, "fn", fn)
            c.add_var(G + ("fn",), "p", pp)
            for v in vs:
                c.add_var(G, v.name, v)

            def operand(kind, i):
                lit = lambda base: ast.IntegerConstant(base + i, Int())
                sig = bt.get_function_type(1).new([Int(), Int()])
                if kind == "int":
                    return lit(4711)
                if kind == "real":
                    return ast.RealConstant("47.1%d" % (i + 1), bt.get_double_type())
                if kind == "str":
                    return ast.StringConstant("lit%d" % i)
                if kind == "var":
                    return ast.Variable("v%d" % min(i, 1))
                if kind == "lambda":
                    lp = ast.ParameterDeclaration("lp%d" % i, Int())
                    lam = ast.Lambda("lam%d" % i, [lp], Int(), lit(4811), sig)
                    c.add_lambda(G + ("res",), lam.name, lam)
                    c.add_var(G + ("res", lam.name), lp.name, lp)
                    return lam
                if kind == "funref":
                    return ast.FunctionReference("fn", None, sig)
                if kind == "new":
                    return ast.New(bx.get_type(), [lit(4911)])
                if kind == "call":
                    return ast.FunctionCall("fn", [ast.CallArgument(lit(5011))])
                if kind == "field":
                    return ast.FieldAccess(ast.New(bx.get_type(), [lit(5111)]), "fld")
                if kind == "cond":
                    return ast.Conditional(ast.BooleanConstant("true"), lit(5211), lit(5311), Int())
                if kind == "bool":
                    return ast.BooleanConstant("false")
                return ast.CharConstant("c")
            def binop(opn, a, b):
                cls_, oper = ((ast.LogicalExpr, ast.Operator(opn)) if opn in ("&&", "||") else
                              (ast.ComparisonExpr, ast.Operator(opn)) if opn in (">", "<=") else
                              (ast.EqualityExpr, ast.Operator("==", is_not=(opn == "!="))))
                return cls_(a, b, oper)
            try:
                if "nest" not in sh:
                    expr = binop(sh["op"], operand(sh["l"], 0), operand(sh["r"], 1))
                elif sh["nest"] == "left":
                    expr = binop(sh["op2"], binop(sh["op"], operand(sh["l"], 0), operand(sh["m"], 1)), operand(sh["r"], 2))
                else:
                    expr = binop(sh["op"], operand(sh["l"], 0), binop(sh["op2"], operand(sh["m"], 1), operand(sh["r"], 2)))
                res = ast.VariableDeclaration("res", expr, is_final=True, var_type=bt.get_boolean_type())
                c.add_var(G, "res", res)
                prog = ast.Program(c, lang)
                text = genlib.translate(prog)
            except Exception:  # noqa: BLE001    (a shape this translator cannot print: C18's business, not a faithfulness question)
                continue
            a = pser.ser_program(prog)
            tps = []
            a.update(id="%s/expr/%d/%s" % (lang, k, json.dumps(sh, sort_keys=True)), counts=[[kk, n, scan.count(lang, text, kk, n)] for kk, n in probes(a)], tcounts=[])
            del a["g"]
            a["ct"] = {cn: (v if v["kind"] != "builtin" else {"tp": v["tp"], "kind": "builtin"}) for cn, v in a["ct"].items()}
            for v in a["ct"].values():
                v.pop("funs", None)
            a["surface"] = surface.surface(lang, text)
            a["text"] = text[:600]
            progs.append(a)
        return progs
    progs = genlib.in_big_stack(expr_work if SHAPES else work)
    json.dump({"progs": progs}, open(out, "w"), separators=(",", ":"))
    print(json.dumps([out]))


main()
