"""E step for the mini-program family of HMiniProg (C03 / C04): build each member as a real program (AST + context), apply the real
type erasure, and the real type overwriting under every outcome of its random choices (ChoiceOracle); output as mut_exec does."""
import copy
import hashlib
import json
import sys

import genlib


def dig(s):
    return hashlib.sha1(s.encode()).hexdigest()[:12]


def main():
    lang, members, kind, out = sys.argv[1], json.load(open(sys.argv[2])), sys.argv[3], sys.argv[4]
    per_site = int(sys.argv[5]) if len(sys.argv) > 5 else 1
    genlib.setup(lang)
    import hlib
    import pser
    from src import utils
    from src.ir import ast, types as tp, type_utils as tu, BUILTIN_FACTORIES
    from src.ir import context as ctx
    from src.transformations.type_erasure import TypeErasure
    from src.transformations.type_overwriting import TypeOverwriting
    G = ast.GLOBAL_NAMESPACE
    bt = BUILTIN_FACTORIES[lang]
    last = {}
    real_fit = tu.find_irrelevant_type

    def spy(etype, types, factory):
        r = real_fit(etype, types, factory)
        last.update(old=etype, new=r)
        return r
    tu.find_irrelevant_type = spy

    def build(m):
        tpar = tp.TypeParameter("T")
        fields = [ast.FieldDeclaration("f", tpar, is_final=True)] if m["field"] else []
        cls = ast.ClassDeclaration("A", [], ast.ClassDeclaration.REGULAR, fields=fields, functions=[], type_parameters=[tpar])
        con = cls.get_type()

        def ty(name):      # a fresh type object for every use
            if name == "T":
                return tpar
            if name == "Int":
                return bt.get_integer_type()
            if name == "String":
                return bt.get_string_type()
            assert name.startswith("A<") and name.endswith(">"), name
            return con.new([ty(name[2:-1])])

        def const(name):
            return ast.IntegerConstant(7, bt.get_integer_type()) if name == "Int" else ast.StringConstant("s")
        py = ast.ParameterDeclaration("y", ty(m["p"]))
        foo = ast.FunctionDeclaration("foo", [py], ty(m["p"]), ast.Variable("y"), ast.FunctionDeclaration.CLASS_METHOD)
        cls.functions.append(foo)
        pz = ast.ParameterDeclaration("z", ty(m["z"]))
        new = ast.New(con.new([ty(m["targ"])]), [const(m["targ"])] if m["field"] else [])
        init = {"new": lambda: new,
                "call": lambda: ast.FunctionCall("foo", [ast.CallArgument(ast.Variable("z"))], receiver=new),
                "field": lambda: ast.FieldAccess(new, "f"),
                "var": lambda: ast.Variable("z")}[m["init"]]()
        vx = ast.VariableDeclaration("x", init, var_type=ty(m["x"]))
        body = [vx]
        decls = [vx]
        if m["w"] != "none":
            vw = ast.VariableDeclaration("w", ast.Variable("x"), var_type=ty(m["w"]))
            body.append(vw)
            decls.append(vw)
        bar = ast.FunctionDeclaration("bar", [pz], bt.get_void_type(), ast.Block(body), ast.FunctionDeclaration.FUNCTION)
        c = ctx.Context()
        c.add_class(G, cls.name, cls)
        for fd in fields:
            c.add_var(G + ("A",), fd.name, fd)
        c.add_func(G + ("A",), foo.name, foo)
        c.add_var(G + ("A", "foo"), py.name, py)
        c.add_func(G, bar.name, bar)
        c.add_var(G + ("bar",), pz.name, pz)
        for d in decls:
            c.add_var(G + ("bar",), d.name, d)
        return ast.Program(c, lang)

    def abstract(p, pid, mode):
        a = pser.ser_program(p)
        a.update(id=pid, mode=mode, skip="")
        return a

    def case(cid, knd, b, a, t, inj, texts):
        ab, aa = abstract(b, cid + "/before", "declared" if knd == "erase" else "inference"), abstract(a, cid + "/after", "inference")
        mo = mn = ""
        node = []
        if inj and " expected but " in inj and " found in node " in inj:
            mo, rest = inj.split(" expected but ", 1)
            mn, nid = rest.rsplit(" found in node ", 1)
            node = nid.split("/")
        return ({"id": cid, "kind": knd, "transformed": bool(t.is_transformed), "injected": inj,
                 "before": {k: ab[k] for k in ("ct", "g", "ev")}, "after": {k: aa[k] for k in ("ct", "g", "ev")},
                 "text_before": texts[0], "text_after": texts[1], "msg_old": mo, "msg_new": mn, "msg_node": node,
                 "rep_old": [hlib.ser(last["old"])] if inj and last.get("old") is not None else [],
                 "rep_new": [hlib.ser(last["new"])] if inj and last.get("new") is not None else []}, [ab, aa])

    def work():
        cases, progs = [], []
        for mi, m in members:
            base = "%s/mini/%d" % (lang, mi)
            try:
                p = build(m)
                genlib.translate(p)
            except Exception:  # noqa: BLE001   (a member the family cannot express in this language)
                continue
            try:
                e = copy.deepcopy(p)
                te = TypeErasure(e, lang, None, {})
                te.transform()
                e = te.result()
            except Exception:  # noqa: BLE001   (C18's business)
                continue
            if kind == "erase":
                c, ps = case(base + "/erase1", "erase", p, e, te, "", ("", ""))
                cases.append(c)
                progs += ps
                continue
            for tagb, b in (("generated", p), ("erased", e)):
                oracle = hlib.ChoiceOracle(0, 60)
                saved = utils.random
                utils.random = oracle
                outcomes = []

                def once():
                    last.clear()
                    w = copy.deepcopy(b)
                    tw = TypeOverwriting(w, lang, None, {})
                    tw.transform()
                    return tw.result(), tw, dict(last)
                try:
                    for choices, res in oracle.run_all(once):
                        if isinstance(res, Exception):
                            continue
                        outcomes.append(res)
                finally:
                    utils.random = saved
                seen, per = set(), {}
                for w, tw, lst in outcomes:
                    inj = tw.error_injected or ""
                    key = inj + dig(genlib.translate(w))
                    # every injection *site* of the member, with at most PER_SITE of the replacing types offered for it
                    site = inj.split(" expected but ")[0] + "@" + inj.rsplit(" found in node ", 1)[-1]
                    if key in seen or per.get(site, 0) >= per_site:
                        continue
                    seen.add(key)
                    per[site] = per.get(site, 0) + 1
                    last.clear()
                    last.update(lst)
                    c, ps = case("%s/ow_%s_%d" % (base, tagb, len(seen)), "overwrite", b, w, tw, inj, (dig(genlib.translate(b)), dig(genlib.translate(w))))
                    cases.append(c)
                    progs += ps
        return cases, progs
    cases, progs = genlib.in_big_stack(work)
    json.dump({"cases": cases}, open(out + ".cases.json", "w"), separators=(",", ":"))
    json.dump({"progs": progs}, open(out + ".progs.json", "w"), separators=(",", ":"))
    print(json.dumps([out + ".cases.json", out + ".progs.json"]))


main()
