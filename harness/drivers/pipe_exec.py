"""EV for C18: the whole pipeline (generate, erase, erase again, overwrite, translate every intermediate program) under an
instrumented generator; records the outcome of every stage and the generator's call edges / dispatch decisions / depth bookkeeping."""
import json
import sys

import genlib


def instrument(Generator, cfg, rec):
    ZERO_COST = {"_gen_func_call", "_gen_func_ref", "_gen_side_effects", "gen_assignment", "_gen_func_body", "gen_array_expr", "gen_is_expr",
                 "gen_variable", "_gen_func_params_with_default"}

    def wrap(name, fn):
        def w(self, *a, **k):
            rec["calls"] += 1
            d0 = self.depth
            rec["maxdepth"] = max(rec["maxdepth"], d0)
            stack = rec["stack"]
            if name == "generate_expr":
                expr_type = a[0] if a else k.get("expr_type")
                ol = bool(a[1] if len(a) > 1 else k.get("only_leaves", False))
                xv = bool(a[3] if len(a) > 3 else k.get("exclude_var", False))
                gb = bool(a[4] if len(a) > 4 else k.get("gen_bottom", False))
                void = expr_type is not None and expr_type == self.bt_factory.get_void_type()
                frame = {"r": name, "d": d0, "ol": ol, "xv": xv, "void": bool(void), "paid": 0}
                par = stack[-1] if stack else None
                if par is not None and not gb:
                    delta = d0 - par["d"]
                    rec["edges"].add((par["r"], delta, ol, xv, bool(void)))
                    up = next((f for f in reversed(stack) if f["r"] == "generate_expr"), None)
                    frame["paid"] = (up["paid"] if up else 0) + (1 if delta > 0 else 0)
                    rec["maxnest_paid"] = max(rec["maxnest_paid"], frame["paid"])
            else:
                frame = {"r": name, "d": d0}
                par = stack[-1] if stack else None
                if par is not None and par["r"] == "generate_expr":
                    rec["leaf"].add((name, bool(par["d"] >= cfg.limits.max_depth), par["ol"], par["void"], par["xv"]))
            stack.append(frame)
            try:
                return fn(self, *a, **k)
            finally:
                stack.pop()
                if self.depth != d0 and len(rec["restore_bad"]) < 5:
                    rec["restore_bad"].append([name, d0, self.depth])
        return w
    for name in dir(Generator):
        if name == "generate_expr" or name.startswith("gen_") or name.startswith("_gen_") or name == "generate_main_func":
            fn = getattr(Generator, name)
            if callable(fn):
                setattr(Generator, name, wrap(name, fn))


def main():
    lang, sw, md, seeds, out = sys.argv[1], json.loads(sys.argv[2]), int(sys.argv[3]), json.loads(sys.argv[4]), sys.argv[5]
    genlib.setup(lang, dis_use=sw["disUse"], dis_contra=sw["disContra"], no_bounds=sw["noBounds"], no_param_fn=sw["noParamFn"], max_depth=md)
    from src.generators.generator import Generator
    from src.generators.config import cfg
    rec = {}
    instrument(Generator, cfg, rec)

    def stage(stages, name, fn):
        try:
            return fn()
        except RecursionError as e:
            stages.append({"stage": name, "exc": "RecursionError"})
        except Exception as e:  # noqa: BLE001
            stages.append({"stage": name, "exc": type(e).__name__ + ": " + str(e)[:120]})
        else:
            pass
        return None

    def work():
        progs = []
        for seed in seeds:
            rec.update(stack=[], edges=set(), leaf=set(), restore_bad=[], calls=0, maxdepth=0, maxnest_paid=0)
            stages = []

            def ok(name):
                stages.append({"stage": name, "exc": ""})
            p = stage(stages, "generate", lambda: genlib.generate(seed))
            if p is not None:
                ok("generate")
                cur = p
                for name, f in (("translate_generated", lambda: genlib.translate(cur)),):
                    if stage(stages, name, f) is not None:
                        ok(name)
                e1 = stage(stages, "erase", lambda: genlib.erase(p, seed)[0])
                if e1 is not None:
                    ok("erase")
                    if stage(stages, "translate_erased", lambda: genlib.translate(e1)) is not None:
                        ok("translate_erased")
                    e2 = stage(stages, "erase_again", lambda: genlib.erase(e1, seed + 1)[0])
                    if e2 is not None:
                        ok("erase_again")
                        w = stage(stages, "overwrite", lambda: genlib.overwrite(e2, seed + 2)[0])
                        if w is not None:
                            ok("overwrite")
                            if stage(stages, "translate_overwritten", lambda: genlib.translate(w)) is not None:
                                ok("translate_overwritten")
            progs.append({"id": "%s/%s/md%d/%d" % (lang, "".join("1" if sw[k] else "0" for k in ("disUse", "disContra", "noBounds", "noParamFn")), md, seed),
                          "max_depth": md, "stages": stages, "edges": sorted(list(x) for x in rec["edges"]), "leaf": sorted(list(x) for x in rec["leaf"]),
                          "restore_bad": rec["restore_bad"], "calls": rec["calls"], "maxdepth": rec["maxdepth"], "maxnest_paid": rec["maxnest_paid"]})
        return progs
    progs = genlib.in_big_stack(work)
    json.dump({"programs": progs}, open(out, "w"), separators=(",", ":"))
    print(json.dumps([out]))


main()
