"""E step of C06: build each TLC-generated class table with real declarations and evaluate is_subtype / is_assignable
on every pair of the universe; the positive pairs are recorded (sparse)."""
import json
import sys

import hlib


def run(case, lang):
    T = hlib.Table(case["ct"], case["order"], lang)
    case["ct"].update(hlib.real_builtin_entries(T.factory, case["ct"]))
    if "Array" in case["ct"]:       # the language's own declaration of arrays is an input (Java / Groovy: covariant); specialised arrays are Kotlin's
        case["ct"]["Array"]["tp"][0]["v"] = hlib.VNAME[T.factory.get_array_type().type_parameters[0].variance.value] if \
            T.factory.get_array_type().type_parameters[0].variance.value else "inv"
        if lang != "kotlin":
            case["u"] = [u for u in case["u"] if "SArray" not in json.dumps(u)]
    objs = [T.build(u) for u in case["u"]]
    # round trip of the serialiser (trusted base cross-check): term -> object -> term
    for u, o in zip(case["u"], objs):
        back = hlib.ser(o)
        if back != u:
            raise SystemExit("serialiser round trip failed: %s -> %s" % (json.dumps(u), json.dumps(back)))
    rel, rela, errs = [], [], []
    for i, s in enumerate(objs):
        for j, t in enumerate(objs):
            try:
                if s.is_subtype(t):
                    rel.append([i + 1, j + 1])
                if s.is_assignable(t):
                    rela.append([i + 1, j + 1])
            except Exception as e:  # noqa: BLE001
                errs.append([i + 1, j + 1, type(e).__name__])
    return {"id": json.dumps(case["id"], sort_keys=True) + "/" + lang, "lang": lang, "ct": case["ct"], "u": case["u"],
            "rel": rel, "rela": rela, "errs": errs}


def main():
    inp, outprefix, chunk = sys.argv[1], sys.argv[2], int(sys.argv[3])
    cases = json.load(open(inp))
    out = [run(c, c["lang"]) for c in cases]
    print(json.dumps(hlib.emit_chunks(out, outprefix, chunk)))


main()
