"""E step of C13: save a program with the tool's own dump at a pipeline stage, load it back, and apply the same operations
(same random choices) to the original and to the loaded copy."""
import hashlib
import json
import os
import sys
import tempfile

import genlib

OTHER = {"kotlin": "java", "java": "kotlin", "groovy": "scala", "scala": "groovy"}


def dig(s):
    return hashlib.sha1(s.encode()).hexdigest()[:12]


def main():
    lang, seeds, plan_file, out = sys.argv[1], json.loads(sys.argv[2]), sys.argv[3], sys.argv[4]
    genlib.setup(lang)
    from src import utils
    plans = json.load(open(plan_file))
    tmp = tempfile.mkdtemp(prefix="hreplay")

    def text(p, l=None):
        try:
            return dig(genlib.translate(p, l or lang))
        except Exception as e:  # noqa: BLE001  (another language's translator may reject the program; both copies must agree)
            return "exc:" + type(e).__name__

    def stage_program(seed, stage):
        p = genlib.generate(seed)
        if stage == "generated":
            return p
        p, _ = genlib.erase(p, seed)
        if stage == "erased1":
            return p
        p, _ = genlib.erase(p, seed + 1)
        if stage == "erased2":
            return p
        p, _ = genlib.overwrite(p, seed + 2)
        return p

    def work():
        cases = []
        for seed in seeds:
            staged = {}
            for pi, plan in enumerate(plans):
                # the staged original is built once per (seed, stage); operations never mutate it (mutations work on deep copies)
                if plan["stage"] not in staged:
                    staged[plan["stage"]] = stage_program(seed, plan["stage"])
                a = staged[plan["stage"]]
                saved_path = os.path.join(tmp, "Saved_%d_%d.bin" % (seed, pi))
                path = os.path.join(tmp, "Main.bin")
                utils.dump_program(saved_path, a)
                b = utils.load_program(saved_path)
                steps = []
                for k, op in enumerate(plan["ops"]):
                    exc = ""

                    def both(f):
                        """apply f to each copy; an exception is an observation like any other (it must be the same on both)"""
                        res = []
                        for x, inplace in ((a, False), (b, True)):     # the loaded copy is mutated in place, as --replay does
                            try:
                                res.append(f(x, inplace))
                            except Exception as e:  # noqa: BLE001
                                res.append((x, "exc:" + type(e).__name__))
                        return res
                    if op == "translate_own":
                        (a, oa), (b, ob) = both(lambda x, ip: (x, text(x)))
                    elif op == "translate_other":
                        (a, oa), (b, ob) = both(lambda x, ip: (x, text(x, OTHER[lang])))
                    elif op == "erase":
                        def f(x, ip):
                            y, t = genlib.erase(x, seed + 10 + k, inplace=ip)
                            return y, "%s/%s" % (t.is_transformed, text(y))
                        (a, oa), (b, ob) = both(f)
                    elif op == "overwrite":
                        def f(x, ip):
                            y, t = genlib.overwrite(x, seed + 10 + k, inplace=ip)
                            return y, "%s/%s" % (t.error_injected, text(y))
                        (a, oa), (b, ob) = both(f)
                    elif op == "reload":
                        # read the saved file again: it must still be the program that was saved, whatever happened to earlier copies
                        a = staged[plan["stage"]]
                        try:
                            b = utils.load_program(saved_path)
                        except Exception as e:  # noqa: BLE001
                            exc = type(e).__name__ + ": " + str(e)[:80]
                        oa, ob = text(a), text(b)
                    elif op == "redump":
                        try:
                            utils.dump_program(path, b)
                            b = utils.load_program(path)
                        except Exception as e:  # noqa: BLE001
                            exc = type(e).__name__ + ": " + str(e)[:80]
                        oa, ob = text(a), text(b)
                    steps.append({"op": op, "orig": oa, "loaded": ob, "exc": exc})
                cases.append({"id": "%s/%d/plan%d" % (lang, seed, pi), "stage": plan["stage"], "steps": steps})
        return cases
    cases = genlib.in_big_stack(work)
    json.dump({"cases": cases}, open(out, "w"), separators=(",", ":"))
    print(json.dumps([out]))


main()
