"""E step of C16: replay TLC-generated operation histories on a real src.ir.context.Context and record query results."""
import json
import sys

from src.ir import ast, types as tp, kotlin_types as kt
from src.ir.context import Context, get_decl

NS_ALL = [("g",), ("g", "f"), ("g", "f", "b"), ("g", "C"), ("g", "C", "m"), ("g", "C", "m", "b")]
KINDS = ["types", "funcs", "lambdas", "vars", "classes"]
ADD = {"types": "add_type", "funcs": "add_func", "lambdas": "add_lambda", "vars": "add_var", "classes": "add_class"}
REM = {"types": "remove_type", "funcs": "remove_func", "lambdas": "remove_lambda", "vars": "remove_var", "classes": "remove_class"}
GET = {"types": "get_types", "funcs": "get_funcs", "lambdas": "get_lambdas", "vars": "get_vars", "classes": "get_classes",
       "decls": "get_declarations"}


def mkval(kind, name, vid):
    if kind == "vars":
        return ast.VariableDeclaration(name, ast.IntegerConstant(1, kt.Integer), var_type=kt.Integer)
    if kind == "funcs":
        return ast.FunctionDeclaration(name, [], kt.Unit, None, ast.FunctionDeclaration.FUNCTION)
    if kind == "classes":
        return ast.ClassDeclaration(name, [], ast.ClassDeclaration.REGULAR, fields=[], functions=[])
    if kind == "types":
        return tp.TypeParameter("T_" + vid.replace("|", "_").replace("/", "_"))
    if kind == "lambdas":
        return ast.Lambda(name, [], kt.Unit, None, None)
    raise ValueError(kind)


def vid_of(o):
    return "/".join(o["ns"]) + "|" + o["k"] + "|" + o["n"] + "|" + str(o["ver"])


def observe(ctx, vids, names):
    def al(d):
        return [[k, vids[id(x)]] for k, x in d.items()]
    ob = {"lookup": [], "cur": [], "enc": [], "glob": [], "rev": [], "children": [], "nsdecls": [], "getdecl": []}
    for ns in NS_ALL:
        for n in names:
            for lim in [()] + [ns[:j] for j in range(1, len(ns) + 1)]:
                r = get_decl(ctx, ns, n, limit=lim if lim else None)
                ob["lookup"].append([list(ns), n, list(lim), [] if r is None else [list(r[0]), vids[id(r[1])]]])
            d = ctx.get_decl(ns, n)
            ob["getdecl"].append([list(ns), n, [] if d is None else [vids[id(d)]]])
        for k, g in GET.items():
            ob["cur"].append([list(ns), k, al(getattr(ctx, g)(ns, only_current=True))])
            ob["enc"].append([list(ns), k, al(getattr(ctx, g)(ns))])
        ob["children"].append([list(ns), [list(x) for x in ctx.find_namespaces(ns, False)]])
    for k, g in GET.items():
        ob["glob"].append([k, al(getattr(ctx, g)(NS_ALL[-1], glob=True))])
    for k in ("funcs", "classes", "vars"):
        for n in names:
            ob["nsdecls"].append([k, n, [[list(ns), vids[id(d)]] for ns, d in ctx.get_namespaces_decls(("g", "f"), n, k)]])
    return ob


def run(hist, every_step):
    ctx = Context()
    objs, vids = {}, {}
    names = sorted({o["n"] for o in hist})
    ops, obs = [], []
    for i, o in enumerate(hist):
        ns = tuple(o["ns"])
        if o["op"] == "add":
            vid = vid_of(o)
            if vid not in objs:
                objs[vid] = mkval(o["k"], o["n"], vid)
                vids[id(objs[vid])] = vid
            getattr(ctx, ADD[o["k"]])(ns, o["n"], objs[vid])
            ops.append({"op": "add", "ns": o["ns"], "k": o["k"], "n": o["n"], "v": vid})
        else:
            getattr(ctx, REM[o["k"]])(ns, o["n"])
            ops.append({"op": "rem", "ns": o["ns"], "k": o["k"], "n": o["n"], "v": ""})
        if every_step or i == len(hist) - 1:
            ob = observe(ctx, vids, names)
            ob["rev"] = [[vid, list(ctx.get_namespace(x) or ())] for vid, x in sorted(objs.items())]
            obs.append(ob)
        else:
            obs.append({})
    return ops, obs


def main():
    inp, outprefix, chunk = sys.argv[1], sys.argv[2], int(sys.argv[3])
    hists = json.load(open(inp))
    out, k, files = [], 0, []

    def flush():
        nonlocal out, k
        if out:
            path = "%s.%d.json" % (outprefix, k)
            json.dump({"cases": out}, open(path, "w"), separators=(",", ":"))
            files.append(path)
            out, k = [], k + 1
    for h in hists:
        ops, obs = run(h["hist"], h.get("every", False))
        out.append({"id": h["id"], "ops": ops, "obs": obs})
        if len(out) >= chunk:
            flush()
    flush()
    print(json.dumps(files))


main()
