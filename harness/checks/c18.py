"""C18 - the pipeline never fails internally and always terminates (spec: HGenerator + HGeneratorTrace)."""
import itertools
import json
import os
import random
import time
from core import *

PID = "C18"
LANGS = ["kotlin", "java", "groovy", "scala"]


def mc(md, zero):
    c = {"MaxDepth": md, "ZeroCostLinks": "TRUE" if zero else "FALSE", "MaxLinks": 2}
    return tlc("HGenerator", cfg(spec="Spec", invariants=["DepthBounded"], props=["Termination"], constants=c), workers=2, name="mc_gen", timeout=900,
               coverage=not zero)


def validate(path):
    return tlc_must("HGeneratorTrace", cfg(init="TInit", next_="TNext", constraints=["Report"], constants={"MaxDepth": 6, "ZeroCostLinks": "FALSE", "MaxLinks": 2}),
                    env={"TRACE_FILE": path}, workers=1, name="val", timeout=3000, mem="3g")


def run(tier, seed, selftest=False, replay=None):
    t0 = time.time()
    T = lambda what: os.environ.get("VERIF_VERBOSE") and print("[c18] %s at %.1fs" % (what, time.time() - t0), flush=True)
    rnd = random.Random(seed)
    mcs = []
    if replay:
        cs = read_json(os.path.join(replay, "case.json"))["case"]
        worker_case = "/worker/" in cs["id"]
        if worker_case:
            jobs = []
        else:
            lang, swbits, md, sd = cs["id"].split("/")
            jobs = [(lang, dict(zip(("disUse", "disContra", "noBounds", "noParamFn"), [b == "1" for b in swbits])), int(md[2:]), [int(sd)])]
    else:
        # design level: the skeleton is depth-bounded and terminates when the two zero-cost link kinds are cut after MaxLinks uses;
        # with the links modelled faithfully TLC must find the non-terminating lasso (finding F17) - a sanity check of the model itself
        good = parallel(lambda md: mc(md, False), [2, 3, 4] if tier == "quick" else [2, 3, 4, 6])
        for g in good:
            if not g.ok:
                raise MachineryError("MC HGenerator (links cut) did not pass:\n" + "\n".join(g.out.splitlines()[-15:]))
        lasso = mc(3, True)
        if lasso.ok or not any("Termination" in l for l in lasso.error_lines):
            raise MachineryError("MC HGenerator with zero-cost links: expected TLC to find the non-terminating lasso (F17)")
        mcs = good
        n = 4 if tier == "quick" else 40
        sws = list(itertools.product([False, True], repeat=4))
        jobs = []
        for li, lang in enumerate(LANGS):
            for md in (2, 4, 6, 8):
                for rep in range(4 if tier == "quick" else 8):
                    bits = sws[rnd.randrange(16)] if rep else (False, False, False, False)
                    sw = dict(zip(("disUse", "disContra", "noBounds", "noParamFn"), bits))
                    jobs.append((lang, sw, md, [seed * 100000 + 1000 * len(jobs) + k for k in range(n)]))
    d = subdir("c18")

    def ex(i):
        lang, sw, md, seeds = jobs[i]
        return json.loads(run_driver("pipe_exec.py", [lang, json.dumps(sw), md, json.dumps(seeds), os.path.join(d, "trace%d.json" % i)], timeout=3400))
    # histories: one process plays a pool worker and calls the real gen_program for consecutive program ids (nothing reset by the harness)
    if replay:
        wjobs = [(cs["id"].split("/")[0], int(cs["id"].split("/")[2][2:]), int(cs["id"].split("#")[1]) + 5, int(cs["id"].split("/")[3].split("#")[0]))] if worker_case else []
    elif tier == "quick":
        wjobs = [("kotlin", 6, 70, seed + 1), ("java", 6, 70, seed + 2), ("scala", 2, 300, seed + 3)]
    else:
        wjobs = [(lang, md, n_, seed + 10 * li + md) for li, lang in enumerate(LANGS) for md, n_ in ((2, 400), (6, 120))]

    def exw(i):
        lang, md, n_, sd = wjobs[i]
        return json.loads(run_driver("worker_exec.py", [lang, md, n_, sd, os.path.join(d, "worker%d.json" % i)], timeout=3400))
    both = parallel(lambda t: (ex if t[0] == "p" else exw)(t[1]), [("p", i) for i in range(len(jobs))] + [("w", i) for i in range(len(wjobs))])
    files = [f for fl in both for f in fl]
    T("executed %d jobs and %d worker histories" % (len(jobs), len(wjobs)))
    merged, buf = [], []
    for f in files:
        buf += read_json(f)["programs"]
        if len(buf) >= 40:
            merged.append(write_json(os.path.join(d, "m%d.json" % len(merged)), {"programs": buf}))
            buf = []
    if buf:
        merged.append(write_json(os.path.join(d, "m%d.json" % len(merged)), {"programs": buf}))
    if selftest:
        return selftest_run(merged[0])
    vals = parallel(validate, merged)
    T("validated")
    verdict = Verdict(PID)
    nprog = nstages = 0
    sample, stats = None, {"maxdepth": 0, "maxnest_paid": 0, "calls": 0}
    for f, v in zip(merged, vals):
        progs = read_json(f)["programs"]
        nprog += len(progs)
        if v.distinct != len(progs):
            raise MachineryError("validated %d of %d programs" % (v.distinct, len(progs)))
        for p in progs:
            nstages += len(p["stages"])
            for k in stats:
                stats[k] = max(stats[k], p[k])
            sample = sample or p
        tr = {p["id"]: p for p in progs} if v.json else {}
        for j in v.json:
            p = tr[j["prog"]]
            for cl, item in j["bad"]:
                key = cl
                if cl.startswith("NoException."):
                    key = cl + "/" + str(item).split(":")[0]
                verdict.add(key, {"id": p["id"], "item": item, "stages": p["stages"]}, "%s in program %s: %s" % (cl, p["id"], str(item)[:160]))
    rc = verdict.finish()
    write_evidence(PID, tier, seed, "exploration", {
        "evaluations": nstages, "distinct_nontrivial": nprog,
        "worker_histories": [{"language": w[0], "max_depth": w[1], "consecutive_programs": w[2]} for w in wjobs],
        "rule": "design: HGenerator (path model of the generator's call tree with the leaf rule, depth increments and the bottom cut) model-checked "
                "for DepthBounded and Termination with the zero-cost links cut, and TLC required to find the lasso with them (F17); code: seeds x 4 "
                "languages x max_depth in {2,4,6,8} x sampled switch settings, each program through generate / translate / erase / erase / "
                "overwrite / translate with every stage's outcome recorded, the generator instrumented from the harness (every call edge with its "
                "depth increment and flags, every dispatch decision of generate_expr, depth restored on exit, nesting of depth-increasing frames, "
                "call budget) and validated by TLC against the model's edge table and leaf rule. evaluations = pipeline stages run; distinct = programs",
        "samples": [{"program": sample["id"], "stages": sample["stages"], "edges": sample["edges"][:8], "maxdepth": sample["maxdepth"]}],
        "programs": nprog, "observed_maxima": stats, "mc_states": [m.distinct for m in mcs],
        "states": sum(m.distinct for m in mcs) + sum(v.distinct for v in vals), "checker_cmd": "tlc HGenerator (MC) ; pipe_exec.py ; tlc HGeneratorTrace",
    }, time.time() - t0, len(verdict.violations),
        ["absence of exceptions is explored, not proved", "termination is model-checked for the skeleton with the two unbounded link kinds cut (F17); "
         "runs are bound to the skeleton edge by edge", "the transformation timeout (600 s) is outside the model"])
    return rc


def selftest_run(path):
    data = read_json(path)
    base = {j["prog"] for j in validate(path).json}
    p = next(x for x in data["programs"] if x["id"] not in base and any(e[0] == "gen_conditional" for e in x["edges"]))
    e = next(e for e in p["edges"] if e[0] == "gen_conditional")
    e[1] = 0      # pretend gen_conditional forgot its depth increment
    p2 = write_json(path + ".corrupt.json", data)
    flagged = {j["prog"] for j in validate(p2).json} - base
    ok = p["id"] in flagged
    print("selftest C18: recorded a gen_conditional edge without depth increment -> %s" % ("flagged OK" if ok else "NOT flagged"))
    return 0 if ok else 2
