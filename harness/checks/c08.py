"""C08 - instantiation helpers stay within bounds and allowed variance (spec: HTypeOps.InstBad / HInstGen / HTypeOpsTrace)."""
import json
import os
import random
import time
from core import *
from c06 import show, LANGS
from c09 import validate, judge

PID = "C08"


def gen():
    r = tlc_must("HInstGen", cfg(init="Init", next_="Next", constraints=["Emit"]), workers=1, name="gen_inst", timeout=1200)
    seen, out = set(), []
    for j in r.json:
        k = json.dumps(j["id"], sort_keys=True)
        if k not in seen:
            seen.add(k)
            out.append(j)
    return r, out


def run(tier, seed, selftest=False, replay=None):
    if replay:
        import ev_common
        if ev_common.is_ev_case(replay):
            return ev_common.replay_ev(PID, ["instantiate"], replay)
    t0 = time.time()
    T = lambda what: os.environ.get("VERIF_VERBOSE") and print("[c08] %s at %.1fs" % (what, time.time() - t0), flush=True)
    rnd = random.Random(seed)
    gstates = (0, 0)
    if replay:
        cs = read_json(os.path.join(replay, "case.json"))["case"]
        cases = [cs["input"]]
        max_leaves = 4000
    else:
        g, all_cases = gen()
        gstates = (g.distinct, g.generated)
        rnd.shuffle(all_cases)
        if tier == "quick":
            # stratified: the whole slice with default switches and (no | default) variance choices, plus a random sample of the rest
            def base(c):
                q = c["id"]
                return not q["sw"]["disUse"] and not q["sw"]["disContra"] and (not q["choices"]["on"] or not q["choices"]["m"])
            cases = [c for c in all_cases if base(c)] + [c for c in all_cases if not base(c)][:1500]
        else:
            cases = all_cases
        for k, c in enumerate(cases):
            c["k"] = k
            c["lang"] = LANGS[(k + seed) % 4]
        max_leaves = 120 if tier == "quick" else 400
    T("generated %d cases" % len(cases))
    d = subdir("c08")
    parts = chunks(cases, max(1, (len(cases) + NCPU - 1) // NCPU))
    byk = {"c%d/%s" % (c["k"], c["lang"]): c for c in cases}

    def ex(i):
        p = write_json(os.path.join(d, "cases%d.json" % i), parts[i])
        return json.loads(run_driver("inst_exec.py", [p, os.path.join(d, "trace%d" % i), 1500, seed, max_leaves]))
    files = [f for fl in parallel(ex, range(len(parts))) for f in fl]
    T("executed")
    if selftest:
        return selftest_run(files)
    vals = parallel(validate, files)
    T("validated")
    verdict = Verdict(PID)
    # judge() wants "res"; for instantiate events the outcomes are in "outs"
    n_events = n_out = leaves = 0
    sample = None
    for f, v in zip(files, vals):
        cs = read_json(f)["cases"]
        if v.distinct != sum(len(c["events"]) for c in cs):
            raise MachineryError("validated %d of %d events in %s" % (v.distinct, len(cs), f))
        for c in cs:
            ev = c["events"][0]
            n_events += 1
            n_out += len(ev["outs"])
            leaves += ev["leaves"]
            if sample is None and len(ev["outs"]) > 2 and ev["pre"]:
                sample = ev
        tr = {c["id"]: c for c in cs} if v.json else {}
        for j in v.json:
            c = tr[j["case"]]
            ev = c["events"][0]
            for clause, shape in j["bad"]:
                verdict.add("instantiate.%s/%s" % (clause, shape), {"id": c["id"], "event": ev, "input": byk.get(c["id"])},
                            "[%s] instantiate %s choices=%s sw=%s -> offending args %s%s" % (
                                c["lang"], ev["argdesc"], json.dumps(ev["choices"]), json.dumps(ev["sw"]),
                                [[show(a) for a in o[1]] for o in j.get("off", []) if o[0] == clause][:3], " exc=%s" % ev["exc"] if ev["exc"] else ""))
    ev = (0, 0, 0, None)
    if not replay:
        import ev_common
        ev = ev_common.run_ev(PID, ["instantiate"], tier, seed, verdict,
                              describe=lambda e: "instantiate %s tps=%s pre=%s -> %s" % (e["argdesc"], [p["n"] for p in e["tps"]], {k: show(v) for k, v in e["pre"].items()},
                                                                                     [show(a) for a in e["outs"][0]["args"]]))
    scenes = (0, 0, None)
    if not replay:
        import ev_common as _evc
        scenes = _evc.run_scenes(PID, tier, verdict)
    rc = verdict.finish()
    write_evidence(PID, tier, seed, "model_checking", {
        "generator_scenes": {"scenes_executed": scenes[0], "events_judged": scenes[1], "sample": scenes[2], "informational": dict(_evc.INFO) if scenes[0] else {},
                             "rule": "HGenScene: class Foo<..> with a (generic) method or field, Generator._get_matching_class on every wanted type; the "
                                     "instantiate_type_constructor / _compute_type_variable_assignments calls it issues and the resulting receiver / method "
                                     "instantiation are validated by HEvTrace"},
        "ev_generator_calls": {"programs": ev[0], "distinct_calls_judged": ev[1], "not_judgeable": ev[2]},
        "states": gstates[0] + sum(v.distinct for v in vals), "transitions": gstates[1] + sum(v.generated for v in vals),
        "traces_validated_against_impl": n_events,
        "samples": [{"declaration": [(p["v"] + " " if p["v"] != "inv" else "") + p["n"] + (" : " + show(p["b"][0]) if p["b"] else "") for p in sample["tps"]],
                     "pre": {k: show(v) for k, v in sample["pre"].items()}, "choices": sample["choices"], "switches": sample["sw"],
                     "generic_function": sample["fn"], "all_outcomes": [[show(a) for a in o["args"]] for o in sample["outs"]][:10]}],
        "evaluations": leaves, "distinct_nontrivial": n_out,
        "rule": "TLC enumerates declarations G1..G6 (1-3 parameters; bounds none / Number / earlier parameter / chain T3:T2:T1 / Foo<T1>; every "
                "variance) x every partial pre-assignment from a 7-term pool (projections included) x 5 variance-choice settings x 4 switch "
                "settings, for classes and generic functions (quick: the complete slice with default switches and no/default variance choices + 1500 sampled others); each case is executed under the choice oracle (every random outcome up to a leaf "
                "budget; pools with an abstract class, and in half of the cases a bare constructor and a primitive); evaluations = executions, "
                "distinct_nontrivial = distinct outcomes, each validated by TLC with InstBad",
        "cases": n_events, "exhaustive": tier != "quick",
    }, time.time() - t0, len(verdict.violations),
        ["bounds that refer to later parameters are not generated (the helper asserts on them)",
         "a requested assignment that is inconsistent with its bound is outside the contract"])
    return rc


def selftest_run(files):
    data = {"cases": [c for f in files for c in read_json(f)["cases"]][:600]}
    path = write_json(files[0] + ".all.json", data)
    base = {j["case"] for j in validate(path).json}
    def ground_bounded(ev):
        return [i for i, p in enumerate(ev["tps"]) if p["b"] and p["b"][0]["k"] == "C" and not p["b"][0]["a"]]
    cs = next(c for c in data["cases"] if c["events"][0]["outs"] and not c["events"][0]["pre"] and ground_bounded(c["events"][0]))
    i = ground_bounded(cs["events"][0])[0]
    cs["events"][0]["outs"][0]["args"][i] = {"k": "C", "n": "String", "a": []}
    cs["events"][0]["outs"][0]["map"][cs["events"][0]["tps"][i]["n"]] = {"k": "C", "n": "String", "a": []}
    p2 = write_json(path + ".corrupt.json", data)
    flagged = {j["case"] for j in validate(p2).json} - base
    ok = cs["id"] in flagged
    print("selftest C08: replaced a bounded parameter's argument by String -> %s" % ("flagged OK" if ok else "NOT flagged"))
    return 0 if ok else 2
