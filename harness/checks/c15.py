"""C15 - the driver reports a fault exactly on an oracle mismatch and counts correctly (spec: HDriver / HDriverGen / HDriverTrace)."""
import json
import os
import subprocess
import time
from core import *

PID = "C15"


def consts(n, b, pool):
    return {"NProgs": n, "BatchSize": b, "Pool": "TRUE" if pool else "FALSE"}


def mc(n, b, pool):
    text = cfg(spec="Spec", invariants=["Totals", "NoLeftovers", "SavedOnlyFaults"], props=["CountersMonotone", "Terminates"],
               constants=consts(n, b, pool))
    r = tlc_must("MC_HDriver", text, workers=4, name="mc_drv", timeout=3000, coverage=True)
    return r


def gen_all(n, b, pool):
    r = tlc_must("HDriverGen", cfg(init="InitAll", next_="NextNone", constraints=["Emit"], constants=consts(n, b, pool)),
                 workers=1, name="gen_drv", timeout=1200)
    return r


def gen_sim(n, b, pool, num, seed):
    r = tlc_must("HDriverGen", cfg(init="InitEmpty", next_="Grow", constants=consts(n, b, pool)), workers=1, simulate="num=%d" % num,
                 depth=n + (n + b - 1) // b + 3, seed=seed, name="gen_drv_sim", timeout=1200)
    return r


def session(sc, attempts=2, limit=240):
    """one real session in its own process group; a session that does not finish (HDriver: Terminates) is tried once more and then
    reported as such - it is a behaviour of the code, not a failure of the harness"""
    e = driver_env()
    e[GUARD] = "1"
    for _ in range(attempts):
        p = subprocess.Popen([PY, os.path.join(VERIF, "harness", "drivers", "drv_session.py")], stdin=subprocess.PIPE, stdout=subprocess.PIPE,
                             stderr=subprocess.PIPE, text=True, env=e, cwd=scratch(), start_new_session=True)
        try:
            so, se = p.communicate(json.dumps(sc), timeout=limit)
        except subprocess.TimeoutExpired:
            try:
                os.killpg(p.pid, 9)
            except OSError:
                pass
            p.communicate()
            continue
        try:
            return json.loads(so.strip().splitlines()[-1])
        except Exception:  # noqa: BLE001
            raise MachineryError("session driver failed: %s" % se[-1500:])
    return {"events": [], "exc": "", "hang": True}


def pipeline_table(d):
    """Growth beyond the listed property: one iteration of the driver for one program (HPipeline).  TLC checks the design properties
    over all 1 176 scenarios (schedule length <= 3, which steps transform, where an exception is raised, injection outcome, --keep-all,
    --only-correctness-preserving-transformations); the real gen_program / ProgramProcessor run each scenario with scripted
    transformations; HPipelineTrace compares files and result with the model's final state.  Informational: not part of the C15 verdict."""
    g = tlc_must("HPipeline", cfg(spec="Spec", invariants=["PassIsFinal", "PassNeverFaulty", "FailIsFaulty", "TextIsBin", "KeepAll", "FailedReportsNothing"],
                                  props=["Terminates"], constraints=["Emit"]), workers=4, name="mc_pl")
    scs = list({json.dumps(j["sc"], sort_keys=True): j["sc"] for j in g.json}.values())
    parts = chunks(scs, (len(scs) + 7) // 8)
    files = [f for fl in parallel(lambda i: json.loads(run_driver("pl_exec.py", [write_json(os.path.join(d, "pls%d.json" % i), parts[i]),
                                                                                os.path.join(d, "plr%d.json" % i)])), range(len(parts))) for f in fl]
    vals = parallel(lambda f: tlc_must("HPipelineTrace", cfg(init="TInit", next_="TNext", constraints=["AtEnd"]), env={"TRACE_FILE": f}, workers=1, name="val_pl"), files)
    mism = []
    for f, v in zip(files, vals):
        runs = read_json(f)["runs"]
        for j in v.json:
            mism.append((runs[j["run"] - 1]["sc"], j["diff"]))
    for sc, diff in mism[:5]:
        print("INFO: HPipeline: real iteration differs from the model in %s for scenario %s" % (diff, json.dumps(sc, sort_keys=True)))
    return {"scenarios": len(scs), "model_states": g.distinct, "mismatches": len(mism), "mism": mism[:50],
            "design_properties_checked": ["PassIsFinal", "PassNeverFaulty", "FailIsFaulty", "TextIsBin", "KeepAll", "FailedReportsNothing", "Terminates"]}


def validate(args):
    path, (n, b, pool) = args
    return tlc_must("HDriverTrace", cfg(init="TInit", next_="TNext", constraints=["AtEnd"], constants=consts(n, b, pool)),
                    env={"TRACE_FILE": path}, workers=1, name="val", timeout=3000, mem="3g", deque=True)


def run(tier, seed, selftest=False, replay=None):
    t0 = time.time()
    T = lambda what: os.environ.get("VERIF_VERBOSE") and print("[c15] %s at %.1fs" % (what, time.time() - t0), flush=True)
    gens, mcs = [], []
    if replay:
        scs = [read_json(os.path.join(replay, "case.json"))["case"]["scenario"]]
    else:
        if tier == "quick":
            plan = [lambda: gen_all(1, 1, False), lambda: gen_all(2, 2, False), lambda: gen_sim(4, 2, False, 60, seed), lambda: gen_sim(5, 3, False, 40, seed + 1),
                    lambda: gen_sim(4, 2, True, 30, seed + 2), lambda: gen_sim(5, 2, True, 25, seed + 3), lambda: gen_sim(3, 2, True, 25, seed + 5)]
            mplan = [lambda: mc(3, 2, False), lambda: mc(3, 2, True)]
        else:
            plan = [lambda: gen_all(1, 1, False), lambda: gen_all(2, 2, False), lambda: gen_all(2, 1, False), lambda: gen_sim(4, 2, False, 1500, seed),
                    lambda: gen_sim(5, 3, False, 800, seed + 1), lambda: gen_sim(7, 3, False, 400, seed + 4),
                    lambda: gen_all(2, 2, True), lambda: gen_sim(4, 2, True, 600, seed + 2), lambda: gen_sim(6, 2, True, 300, seed + 3),
                    lambda: gen_sim(5, 2, True, 300, seed + 5), lambda: gen_sim(5, 3, True, 300, seed + 6), lambda: gen_sim(3, 2, True, 200, seed + 7)]
            mplan = [lambda: mc(4, 2, False), lambda: mc(4, 2, True), lambda: mc(3, 3, True)]
        res = parallel(lambda f: f(), plan + mplan)
        gens, mcs = res[:len(plan)], res[len(plan):]
        seen, scs = set(), []
        for g in gens:
            for j in g.json:
                k = json.dumps(j, sort_keys=True)
                if k not in seen:
                    seen.add(k)
                    scs.append(j)
    T("generated %d scenarios; MC states %s" % (len(scs), [m.distinct for m in mcs]))
    for m in mcs:
        never = [a for a, (d, g) in m.coverage.items() if g == 0 and a in ("GenProgram", "Check", "Update", "EndSession")]
        if never:
            raise MachineryError("MC_HDriver: actions never taken: %s" % never)
    outs = parallel(session, scs, n=NCPU)
    T("executed %d sessions" % len(outs))
    groups = {}
    for i, (sc, o) in enumerate(zip(scs, outs)):
        groups.setdefault((sc["n"], sc["batch"], sc["pool"]), []).append({"id": "s%d" % i, "scenario": sc, "events": o["events"], "exc": o["exc"], "hang": bool(o.get("hang"))})
    d = subdir("c15")
    files = []
    for key, sess in groups.items():
        for j, part in enumerate(chunks(sess, 60)):
            files.append((write_json(os.path.join(d, "sess_%d_%d_%s_%d.json" % (key[0], key[1], key[2], j)), {"sessions": part}), key))
    if selftest:
        return selftest_run(files[0])
    vals = parallel(validate, files)
    T("validated")
    verdict = Verdict(PID)
    nevents = 0
    sample = None
    for (f, key), v in zip(files, vals):
        sess = read_json(f)["sessions"]
        byid = {s["id"]: s for s in sess}
        best = {}
        for j in v.json:
            if j["id"] not in best or len(j["bad"]) < len(best[j["id"]]["bad"]):
                best[j["id"]] = j
        for s in sess:
            nevents += len(s["events"])
            sample = sample or s
            j = best.get(s["id"])
            if j is None:
                raise MachineryError("no verdict for session %s" % s["id"])
            clauses = sorted({c[1] for c in j["bad"]})
            if s["hang"]:
                clauses = ["Terminates"]          # nothing else can be judged: the session was killed after 2 x 240 s
            if s["exc"]:
                clauses.append("SessionRaised")
            if not clauses and not any(e["ev"] == "end" for e in s["events"]):
                clauses.append("NoEndEvent")
            for cl in clauses:
                verdict.add(cl + "/" + shape(s["scenario"]), {"scenario": s["scenario"], "events": s["events"], "exc": s["exc"], "bad": j["bad"]},
                            "clause %s in session %s (n=%d batch=%d pool=%s): outs=%s crashes=%s%s" % (
                                cl, s["id"], key[0], key[1], key[2], [(o["kind"], o["rp"], o["rf"]) for o in s["scenario"]["outs"]],
                                s["scenario"]["crashes"], " exc=" + s["exc"] if s["exc"] else ""))
    pl = pipeline_table(d) if not replay else None
    if pl:
        pl.pop("mism", None)
    T("pipeline table")
    rc = verdict.finish()
    write_evidence(PID, tier, seed, "model_checking", {
        "pipeline_model": pl,
        "states": sum(m.distinct for m in mcs) + sum(g.distinct for g in gens) + sum(v.distinct for v in vals),
        "transitions": sum(m.generated for m in mcs) + sum(g.generated for g in gens) + sum(v.generated for v in vals),
        "traces_validated_against_impl": len(scs),
        "samples": [{"scenario": sample["scenario"], "events": sample["events"]}],
        "evaluations": nevents, "distinct_nontrivial": len(scs),
        "rule": "MC: HDriver model-checked (Totals, NoLeftovers, SavedOnlyFaults, CountersMonotone, Terminates) for 3-4 programs in batches of 2-3, "
                "sequential and worker-pool interleavings, every outcome x verdict x crash combination. GEV: TLC emits whole-session scenarios "
                "(exhaustive for 1-2 programs, random for 4-7 programs in 2-3 batches, sequential and pool mode); each runs as a real session "
                "(real gen_program / check_oracle / update_stats / save_stats / run / run_parallel with a fork pool; scripted ProgramProcessor and "
                "a stand-in compiler printing javac-format output); the recorded events are replayed by HDriverTrace as a behaviour of HDriver "
                "(TLC infers the batch of each asynchronous update). evaluations = events validated; distinct = sessions",
        "mc_states": [m.distinct for m in mcs], "sessions_pool_mode": sum(1 for s in scs if s["pool"]),
        "exhaustive": False,
    }, time.time() - t0, len(verdict.violations),
        ["the compiler is a stand-in printing javac-format diagnostics (real analyze_compiler_output parses them)",
         "programs are empty ast.Program values (the driver does not look inside them)"])
    return rc


def shape(sc):
    """known-finding shapes, computed from the scenario (the spec's predicates DoubleMismatch / CrashWithToolFailure)"""
    n, b = sc["n"], sc["batch"]
    for p, o in enumerate(sc["outs"], 1):
        cr = sc["crashes"][(p - 1) // b]
        if not cr and o["kind"] == "both" and o["rp"] and not o["rf"]:
            return "DoubleMismatch"
    for p, o in enumerate(sc["outs"], 1):
        if sc["crashes"][(p - 1) // b] and o["kind"] in ("tool", "late"):
            return "CrashWithToolFailure"
    return "plain"


def selftest_run(arg):
    path, key = arg
    data = read_json(path)
    base = {j["id"]: j["bad"] for j in validate(arg).json}
    s = next(x for x in data["sessions"] if any(e["ev"] == "update" and e["failed"] for e in x["events"]))
    e = next(e for e in s["events"] if e["ev"] == "update" and e["failed"])
    e["passed"] += 1
    e["failed"] -= 1
    p2 = write_json(path + ".corrupt.json", data)
    after = {}
    for j in validate((p2, key)).json:
        if j["id"] not in after or len(j["bad"]) < len(after[j["id"]]):
            after[j["id"]] = j["bad"]
    ok = len(after.get(s["id"], [])) > len(base.get(s["id"], []))
    print("selftest C15: changed one recorded counter update in session %s -> %s" % (s["id"], "rejected OK" if ok else "NOT rejected"))
    return 0 if ok else 2
