"""C04 - type overwriting injects exactly one real type error (spec: HMutation overwrite frame + HTypes relation + HTyping rejection)."""
import json
import os
import time
from core import *
import typing_common as tc
import c03

PID = "C04"
REJECTING = tc.C01_CLAUSES + tc.C05_CLAUSES + tc.C03_CLAUSES


def run(tier, seed, selftest=False, replay=None):
    t0 = time.time()
    cases, verdicts, progs, walks, vals = c03.collect(tier, seed + 3, replay, "overwrite", 4, 40, "c04")
    if selftest:
        return selftest_run(cases)
    verdict = Verdict(PID)
    injected = 0
    sample = None
    for cid, c in sorted(cases.items()):
        j = verdicts.get(cid)
        if j is None:
            raise MachineryError("no frame verdict for " + cid)
        for cl, pos in j["bad"]:
            verdict.add(cl, {"id": cid, "event": pos, "injected": c["injected"], "before": c["before"]["ev"][pos - 1] if pos else None,
                             "after": c["after"]["ev"][pos - 1] if pos else None},
                        "%s at event %s of %s (%s): %s -> %s" % (cl, pos, cid, c["injected"][:80], json.dumps(c["before"]["ev"][pos - 1])[:140] if pos else "",
                                                                 json.dumps(c["after"]["ev"][pos - 1])[:140] if pos else ""))
        if c["injected"]:
            injected += 1
            sample = sample or (c, j)
            # a correct type checker must reject the program: the walk (declared types where present, inference where omitted)
            # finds a violation the program did not have before
            if not j["bad"] and not c03.new_violations(walks, cid, REJECTING):
                site = c["after"]["ev"][j["sites"][0] - 1] if j["sites"] else {}
                shape = "InferableTypeArgs" if site.get("infer") else "plain"
                verdict.add("InjectedRejected/" + shape, {"id": cid, "injected": c["injected"], "site_before": c["before"]["ev"][j["sites"][0] - 1] if j["sites"] else None,
                                                          "site_after": site,
                                                          "walk_before_site": c["after"]["ev"][max(0, j["sites"][0] - 5):j["sites"][0]] if j["sites"] else []},
                            "the reference checker accepts the overwritten program %s (%s); site after: %s" % (cid, c["injected"][:100], json.dumps(site)[:160]))
    rc = verdict.finish()
    write_evidence(PID, tier, seed, "exploration", {
        "evaluations": len(cases), "distinct_nontrivial": injected,
        "rule": "real TypeOverwriting on generated and on erased programs (2 random choices each; 4 languages; default and sampled switches) and on every member of the mini-program family HMiniProg (192 well-typed programs around one generic class, enumerated by TLC; every injection site under the enumerated outcomes of the random choices); TLC checks "
                "the frame (exactly one site differs and only in its declared type / one type argument; NoOp and identical translation when nothing "
                "was injected), that the replaced and the replacing type are unrelated in the declarative relation over the program's class table, the "
                "message parts, and - with HTyping - that the overwritten program is rejected (a violation it did not have before). "
                "evaluations = mutation steps, distinct_nontrivial = steps that injected an error",
        "samples": [{"step": sample[0]["id"], "injected": sample[0]["injected"], "site_after": sample[0]["after"]["ev"][sample[1]["sites"][0] - 1]}] if sample else [{"note": "nothing injected"}],
        "steps": len(cases), "states": sum(v.distinct for v in vals), "checker_cmd": "mut_exec.py overwrite ; tlc HMutationTrace ; tlc HTyping",
    }, time.time() - t0, len(verdict.violations),
        ["'a correct type checker must reject' is judged by the reference semantics of HTyping (declared types where present, inference where omitted)"])
    return rc


def selftest_run(cases):
    import copy
    c = copy.deepcopy(next(x for x in cases.values() if x["injected"] and any(e["ev"] == "Const" for e in x["after"]["ev"])))
    k = next(i for i, e in enumerate(c["after"]["ev"]) if e["ev"] == "Const")
    c["after"]["ev"][k]["lit"] = "tampered"       # a second difference
    c["id"] = "tampered"
    p = write_json(os.path.join(subdir("c04st"), "t.json"), {"cases": [c]})
    bad = {b[0] for j in c03.frames(p).json for b in j["bad"]}
    ok = "Frame.MoreThanOneSite" in bad
    print("selftest C04: a second changed node in the after-program -> %s" % ("Frame.MoreThanOneSite flagged" if ok else "NOT flagged: %s" % bad))
    return 0 if ok else 2
