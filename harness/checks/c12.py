"""C12 - translations are faithful to the program's declarations and annotations (spec: HInventory / HInventoryTrace)."""
import json
import os
import time
from core import *
import typing_common as tc

PID = "C12"


def validate(path):
    return tlc_must("HInventoryTrace", cfg(init="Init", next_="Next", constraints=["Report"]), env={"TRACE_FILE": path}, workers=1,
                    name="inv", timeout=3400, mem="4g")


def run(tier, seed, selftest=False, replay=None):
    t0 = time.time()
    if replay:
        cs = read_json(os.path.join(replay, "case.json"))["case"]
        lang, swbits, sd, _ = cs["id"].split("/")
        jobs = [(lang, dict(zip(("disUse", "disContra", "noBounds", "noParamFn"), [b == "1" for b in swbits])), [int(sd)])]
    else:
        jobs = tc.jobs_for(tier, seed + 11, 6, 60)
    d = subdir("c12")

    def ex(i):
        lang, sw, seeds = jobs[i]
        return json.loads(run_driver("inv_exec.py", [lang, json.dumps(sw), json.dumps(seeds), os.path.join(d, "p%d.json" % i)], timeout=3400))
    files = [f for fl in parallel(ex, range(len(jobs))) for f in fl]
    nshapes = 0
    if not replay and not selftest:
        # expression shapes (HExprGen): every binary expression over 12 operand kinds and 6 operators, as real programs, 4 translators
        g = tlc_must("HExprGen", cfg(init="Init", next_="Next", constraints=["Emit"], constants={"Nested": "TRUE" if tier != "quick" else "FALSE"}), workers=1, name="gen_expr", timeout=600)
        seen, shapes = set(), []
        for j in g.json:
            kx = json.dumps(j, sort_keys=True)
            if kx not in seen:
                seen.add(kx)
                shapes.append(j)
        nshapes = len(shapes)
        sfile = write_json(os.path.join(d, "shapes.json"), shapes)
        nosw = dict(disUse=False, disContra=False, noBounds=False, noParamFn=False)
        files += [f for fl in parallel(lambda lg: json.loads(run_driver("inv_exec.py", [lg, json.dumps(nosw), "[]", os.path.join(d, "expr_%s.json" % lg), sfile],
                                                                        timeout=3400)), ["java", "kotlin", "groovy", "scala"]) for f in fl]
    if selftest:
        return selftest_run(files[0])
    vals = parallel(validate, files)
    verdict = Verdict(PID)
    nprobes = nprog = nhdr = 0
    sample = None
    for f, v in zip(files, vals):
        progs = {p["id"]: p for p in read_json(f)["progs"]}
        if v.distinct != len(progs):
            raise MachineryError("validated %d of %d programs" % (v.distinct, len(progs)))
        done = set()
        for j in v.json:
            if j["prog"] in done:        # (TLC evaluates the reporting constraint on an initial state more than once)
                continue
            done.add(j["prog"])
            nprog += 1
            nprobes += j["probes"]
            p = progs[j["prog"]]
            sample = sample or p
            nhdr += j["hdrs"]
            for aspect, name, exp, got in j["hbad"]:
                verdict.add("%s.%s" % (aspect, p["lang"]), {"id": p["id"], "kind": aspect, "name": name, "expected": exp, "measured": got},
                            "%s %r in the %s text of %s: expected %s, found %s" % (aspect, name, p["lang"], p["id"], json.dumps(exp)[:300], json.dumps(got)[:300]))
            for kind, name, exp, got in j["bad"]:
                verdict.add("%s.%s" % (kind, p["lang"]), {"id": p["id"], "kind": kind, "name": name, "expected": exp, "measured": got},
                            "%s %r: expected %d occurrence(s) in the %s text of %s, found %d" % (kind, name, exp, p["lang"], p["id"], got))
    rc = verdict.finish()
    write_evidence(PID, tier, seed, "exploration", {
        "expression_shapes": {"shapes": nshapes, "languages": 4, "rule": "HExprGen: val res = (L op R) for every pair of 12 operand kinds and 6 operators (thorough: also ((L op M) op2 R) and (L op (M op2 R)) over 6 kinds and 3 operators), built as real "
                              "programs and translated by the real translators; judged by the same HInventory / HSurface facts (model_checking within that family)"},
        "evaluations": nprobes + nhdr, "distinct_nontrivial": nprog, "headers_compared": nhdr,
        "rule": "generated, erased and overwritten programs of 4 languages are translated by the real translators; for every class, function, "
                "variable/field declaration (typed / untyped), inferable constructor call and string literal of the program TLC computes from the "
                "walk how often the corresponding header / annotation must occur (HInventory.Expected) and compares with the count of the "
                "language's textual pattern (harness/scan.py); plus bracket balance; the header of every function (Kotlin, Scala) and class (all languages) must declare each of its type parameters (fun_tparam / class_tparam); the three programs of a seed go through one translator object, as in the driver. "
                "Declaration surface (HSurface): the emitted text is cut into tokens and every class / function / field / variable header is split by bracket matching; "
                "TLC renders from the abstract program what each header must say in the language's concrete syntax (type syntax incl. projections, arrays, boxing in "
                "argument position; type parameters with variance and bounds; extends / implements clauses; constructor fields; parameter names, types, varargs; "
                "declared return / variable / field types iff carried; kind, finality, abstractness, override as the language expresses them) and compares the bags per "
                "declared name, aspect by aspect; no class or function header beyond the program's. At-least facts: numeric literals, binary operators, parameter names; "
                "explicit type arguments of generic calls (Kotlin, Scala). evaluations = probes + headers compared, distinct = programs",
        "samples": [{"program": sample["id"], "probes": sample["counts"][:10]}],
        "programs": nprog, "states": sum(v.distinct for v in vals), "checker_cmd": "inv_exec.py ; tlc HInventoryTrace",
    }, time.time() - t0, len(verdict.violations),
        ["the textual patterns (one regular expression per fact kind and language) are trusted code", "facts a language does not express are not judged "
         "(HInventory.Expresses): function-header and typed-variable *counts* only for Kotlin and Scala", "the lexer and header splitter (harness/surface.py) are trusted code",
         "Java / Groovy: local functions (printed as lambdas / closures) have no header and are not compared; variables are compared when the program carries a type, as a sub-bag",
         "explicit type arguments of generic method calls are never printed by the Java and Groovy translators (pre-study F5): not judged"])
    return rc


def selftest_run(path):
    data = read_json(path)
    p = next(x for x in data["progs"] if any(c[0] == "var_untyped" and c[2] > 0 for c in x["counts"]))
    c = next(c for c in p["counts"] if c[0] == "var_untyped" and c[2] > 0)
    c[2] -= 1
    p2 = write_json(path + ".corrupt.json", {"progs": [p]})
    bad = [b for j in validate(p2).json for b in j["bad"]]
    ok = any(b[0] == "var_untyped" and b[1] == c[1] for b in bad)
    print("selftest C12: one untyped declaration of %r less in the measured counts -> %s" % (c[1], "flagged" if ok else "NOT flagged"))
    # header surface: change one token of a class's type-parameter list, drop a modifier of a function, rename a parameter
    ok2 = True
    for what in ("tps", "mods", "params"):
        q = json.loads(json.dumps(next(x for x in data["progs"] if any(c_["tps"] for c_ in x["surface"]["classes"]) and
                                       any(f["params"] and f["mods"] for f in x["surface"]["funs"]))))
        if what == "tps":
            c_ = next(c_ for c_ in q["surface"]["classes"] if c_["tps"])
            c_["tps"][0][-1] = c_["tps"][0][-1] + "X"
            want = ("hdr_class.tps", c_["name"])
        elif what == "mods":
            f = next(f for f in q["surface"]["funs"] if f["mods"] and f["params"])
            f["mods"] = []
            want = ("hdr_fun.", f["name"])
        else:
            f = next(f for f in q["surface"]["funs"] if f["params"])
            f["params"][0] = ["zzz" if t == f["params"][0][0 if q["lang"] in ("kotlin", "scala") else -1] else t for t in f["params"][0]]
            want = ("hdr_fun.params", f["name"])
        p3 = write_json(path + ".corrupt_%s.json" % what, {"progs": [q]})
        hb = [b for j in validate(p3).json for b in j["hbad"]]
        hit = any(b[0].startswith(want[0]) and b[1] == want[1] for b in hb)
        print("selftest C12: corrupted %s of %r in the measured surface -> %s" % (what, want[1], "flagged" if hit else "NOT flagged"))
        ok2 = ok2 and hit
    return 0 if ok and ok2 else 2
