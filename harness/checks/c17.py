"""C17 - generation switches are honoured (spec: HSwitches / HSwitchesTrace)."""
import itertools
import json
import os
import time
from core import *
from c06 import show

PID = "C17"
LANGS = ["kotlin", "java", "groovy", "scala"]


def validate(path):
    return tlc_must("HSwitchesTrace", cfg(init="Init", next_="Next", constraints=["Report"]),
                    env={"TRACE_FILE": path}, workers=1, name="val", timeout=3000, mem="3g")


def args_table(d):
    """Growth beyond the listed property: the decision table of src/args.py (HArgs) - TLC enumerates the configurations and checks the
    design facts, the real parser + validate_args decide each one, HArgsTrace compares.  Informational: never part of the C17 verdict."""
    g = tlc_must("HArgs", cfg(init="Init", next_="Next", invariants=["Sane"], constraints=["Emit"]), workers=1, name="gen_args")
    cfgs = list({json.dumps(j, sort_keys=True): j for j in g.json}.values())
    parts = chunks(cfgs, (len(cfgs) + 15) // 16)
    files = [f for fl in parallel(lambda i: json.loads(run_driver("args_exec.py", [write_json(os.path.join(d, "ac%d.json" % i), parts[i]),
                                                                                  os.path.join(d, "ar%d.json" % i)])), range(len(parts))) for f in fl]
    vals = parallel(lambda f: tlc_must("HArgsTrace", cfg(init="TInit", next_="TNext", constraints=["Report"]), env={"TRACE_FILE": f},
                                       workers=1, name="val_args"), files)
    mism = [j for v in vals for j in v.json]
    for j in mism[:5]:
        print("INFO: HArgs decision table: expected %s, validate_args gave %s for %s" % (j["expected"], j["observed"], json.dumps(j["config"], sort_keys=True)))
    return {"configurations": len(cfgs), "validated": sum(v.distinct for v in vals), "mismatches": len(mism),
            "design_facts_checked": ["AcceptedSane", "NeitherUnreachable", "RerunNeedsBatchZero"]}


def run(tier, seed, selftest=False, replay=None):
    t0 = time.time()
    T = lambda what: os.environ.get("VERIF_VERBOSE") and print("[c17] %s at %.1fs" % (what, time.time() - t0), flush=True)
    if replay:
        cs = read_json(os.path.join(replay, "case.json"))["case"]
        jobs = [(cs["lang"], cs["sw"], [cs["seed"]])]
    else:
        n = 8 if tier == "quick" else 60
        jobs = []
        for li, lang in enumerate(LANGS):
            for ci, bits in enumerate(itertools.product([False, True], repeat=4)):
                sw = dict(zip(("disUse", "disContra", "noBounds", "noParamFn"), bits))
                jobs.append((lang, sw, [seed * 10000 + 100 * ci + 17 * li + k for k in range(n)]))
    d = subdir("c17")

    def ex(i):
        lang, sw, seeds = jobs[i]
        return json.loads(run_driver("sw_exec.py", [lang, json.dumps(sw), json.dumps(seeds), os.path.join(d, "trace%d.json" % i)], timeout=3000))
    files = [f for fl in parallel(ex, range(len(jobs))) for f in fl]
    T("executed %d configurations" % len(jobs))
    # merge into fewer trace files for TLC
    merged, buf = [], []
    for f in files:
        buf += read_json(f)["programs"]
        if len(buf) >= 24:
            merged.append(write_json(os.path.join(d, "m%d.json" % len(merged)), {"programs": buf}))
            buf = []
    if buf:
        merged.append(write_json(os.path.join(d, "m%d.json" % len(merged)), {"programs": buf}))
    if selftest:
        return selftest_run(write_json(os.path.join(d, "st.json"), {"programs": [p for f in merged[:12] for p in read_json(f)["programs"]]}))
    vals = parallel(validate, merged)
    T("validated")
    args_info = args_table(d) if not replay else None
    T("args table")
    verdict = Verdict(PID)
    nprog = nocc = 0
    sample = None
    skipped = []
    for f, v in zip(merged, vals):
        progs = read_json(f)["programs"]
        nprog += len(progs)
        nocc += sum(len(p["occ"]) + len(p["tparams"]) for p in progs)
        if v.distinct != len(progs):
            raise MachineryError("validated %d of %d programs" % (v.distinct, len(progs)))
        for p in progs:
            if p["exc"]:
                skipped.append(p["id"] + ": " + p["exc"])       # an internal failure of the generator is C18's business; nothing to judge here
            if sample is None and p["occ"]:
                sample = p
        tr = {p["id"]: p for p in progs} if v.json else {}
        for j in v.json:
            p = tr[j["prog"]]
            for cl, item in j["bad"]:
                verdict.add("%s/%s" % (cl, item.get("prov", "-")),
                            {"lang": p["lang"], "sw": p["sw"], "seed": int(p["id"].rsplit("/", 1)[1]), "item": item, "count_in_program": j["n"]},
                            "%s: %s at %s in program %s (%d such items)" % (cl, show(item["t"]) if "t" in item else item, item.get("where"), p["id"], j["n"]))
    rc = verdict.finish()
    write_evidence(PID, tier, seed, "exploration", {
        "evaluations": nocc, "distinct_nontrivial": nprog,
        "rule": "all 16 combinations of the four switches (passed through src/args.py as the CLI does) x 4 languages x %d seeds; every type "
                "occurrence (declared and recorded types, type arguments, bounds, supertypes, signatures) and every type-parameter declaration "
                "of each generated program is judged by TLC with SwitchBad; evaluations = items judged, distinct_nontrivial = programs" % (
                    8 if tier == "quick" else 60),
        "samples": [{"program": sample["id"], "switches": sample["sw"], "first_occurrences": [[o["where"], show(o["t"])] for o in sample["occ"][:6]],
                     "type_parameters": sample["tparams"][:4]}],
        "programs": nprog, "configurations": len(jobs), "generation_failures_skipped": skipped[:10],
        "args_decision_table": args_info, "states": sum(v.distinct for v in vals), "checker_cmd": "sw_exec.py ; tlc HSwitchesTrace",
    }, time.time() - t0, len(verdict.violations),
        ["programs are sampled by seed (exploration), each one is checked completely",
         "provenance of a projection = name of the routine that constructed the WildCardType object"])
    return rc


def selftest_run(path):
    data = read_json(path)
    base = {j["prog"] for j in validate(path).json}
    p = next(x for x in data["programs"] if x["sw"]["disUse"] and x["occ"] and x["id"] not in base)
    p["occ"][0]["t"] = {"k": "C", "n": "Box", "a": [{"k": "W", "n": "out", "a": [{"k": "C", "n": "Any", "a": []}]}]}
    p2 = write_json(path + ".corrupt.json", data)
    flagged = {j["prog"] for j in validate(p2).json} - base
    ok = p["id"] in flagged
    print("selftest C17: planted a projection in a program generated with use-site variance disabled -> %s" % ("flagged OK" if ok else "NOT flagged"))
    return 0 if ok else 2
