"""C06 - the subtyping judgement is sound, and exact on concrete class types (spec: HTypes / HTypesGen / HSubTrace)."""
import json
import os
import random
import time
from core import *

PID = "C06"
LANGS = ["kotlin", "java", "groovy", "scala"]


def gen_tables(depth, arrays=False):
    return tlc_must("HTypesGen", cfg(init="Init", next_="Next", constraints=["EmitArr" if arrays else "Emit"], constants={"UDepth": depth}),
                    workers=1, name="gen_tables", timeout=1200)


def tables(depth, arrays=False):
    r = gen_tables(depth, arrays)
    seen, out = set(), []
    for j in r.json:
        k = json.dumps(j["id"], sort_keys=True)
        if k not in seen:
            seen.add(k)
            out.append(j)
    return r, out


def validate(path):
    return tlc_must("HSubTrace", cfg(init="Init", next_="Next", constraints=["Report"]),
                    env={"TRACE_FILE": path}, workers=1, name="val", timeout=3000, mem="3g")


def run(tier, seed, selftest=False, replay=None):
    if replay:
        import ev_common
        if ev_common.is_ev_case(replay):
            return ev_common.replay_ev(PID, ["is_subtype"], replay)
    t0 = time.time()
    T = lambda what: os.environ.get("VERIF_VERBOSE") and print("[c06] %s at %.1fs" % (what, time.time() - t0), flush=True)
    rnd = random.Random(seed)
    if replay:
        cs = read_json(os.path.join(replay, "case.json"))["case"]
        g, cases = None, [{"id": json.loads(cs["id"].rsplit("/", 1)[0]), "ct": cs["ct"], "order": ["A", "B", "Cc", "D"], "u": cs["u"], "lang": cs["lang"]}]
        gstates = (0, 0)
    else:
        g, tabs = tables(2, arrays=True)
        gstates = (g.distinct, g.generated)
        if tier == "quick":
            # every table once (language rotating), depth-2 universe
            cases = [dict(t, lang=LANGS[(i + seed) % 4]) for i, t in enumerate(tabs)]
            rnd.shuffle(cases)
            cases = cases[:96]
        else:
            cases = [dict(t, lang=l) for t in tabs for l in LANGS]
    T("generated %d table cases" % len(cases))
    d = subdir("c06")
    parts = chunks(cases, max(1, (len(cases) + NCPU - 1) // NCPU))

    def ex(i):
        p = write_json(os.path.join(d, "cases%d.json" % i), parts[i])
        return json.loads(run_driver("sub_exec.py", [p, os.path.join(d, "trace%d" % i), 40]))
    files = [f for fl in parallel(ex, range(len(parts))) for f in fl]
    T("executed")
    if selftest:
        return selftest_run(files[0])
    vals = parallel(validate, files)
    T("validated")
    verdict = Verdict(PID)
    pairs = positives = frag = 0
    sample = None
    for f, v in zip(files, vals):
        cs = read_json(f)["cases"]
        if v.distinct != len(cs):
            raise MachineryError("validated %d of %d cases in %s" % (v.distinct, len(cs), f))
        pairs += sum(len(c["u"]) ** 2 for c in cs)
        positives += sum(len(c["rel"]) for c in cs)
        sample = sample or cs[0]
        tr = {c["id"]: c for c in cs} if v.json else {}
        for j in v.json:
            c = tr[j["case"]]
            for clause, i, k, shape in j["bad"]:
                key = "%s/%s" % (clause, shape)
                if clause.startswith("SPEC-"):
                    raise MachineryError("the specification's own relation is not transitive on table %s: %s, %s" % (
                        c["id"], show(c["u"][i - 1]), show(c["u"][k - 1])))
                verdict.add(key, {"id": c["id"], "lang": c["lang"], "ct": c["ct"], "u": c["u"], "S": c["u"][i - 1], "T": c["u"][k - 1],
                                  "impl_says": [i, k] in c["rel"], "count_in_table": j["n"]},
                            "clause %s on S=%s T=%s (table %s)" % (clause, show(c["u"][i - 1]), show(c["u"][k - 1]), c["id"]))
    ev = (0, 0, 0, None)
    if not replay:
        import ev_common
        ev = ev_common.run_ev(PID, ["is_subtype"], tier, seed, verdict,
                              describe=lambda e: "is_subtype(%s, %s) answered TRUE" % (show(e["S"]), show(e["T"])))
        T("EV done")
    rc = verdict.finish()
    s_i, s_j = sample["rel"][len(sample["rel"]) // 2]
    write_evidence(PID, tier, seed, "model_checking", {
        "states": gstates[0] + sum(v.distinct for v in vals), "transitions": gstates[1] + sum(v.generated for v in vals),
        "traces_validated_against_impl": len(cases),
        "samples": [{"table": sample["id"], "S": show(sample["u"][s_i - 1]), "T": show(sample["u"][s_j - 1]), "is_subtype": True}],
        "evaluations": pairs, "distinct_nontrivial": positives,
        "rule": "TLC enumerates the well-formed tables of the A/B/Cc/D family (every variance, bound and super-argument combination of "
                "HTypesGen) with a universe of well-formed terms up to nesting 2 (ground, out/in/star projections, top, bottom); the real "
                "is_subtype/is_assignable are evaluated on all |U|^2 ordered pairs per table and language; evaluations = pairs judged by TLC "
                "(Sound, Exact on the fragment, Reflexive, Transitive, BottomBelowAll), distinct_nontrivial = pairs the implementation answers TRUE",
        "tables": len(cases), "exhaustive": tier != "quick",
        "ev_generator_queries": {"programs": ev[0], "distinct_positive_answers_judged": ev[1], "not_judgeable": ev[2],
                                 "note": "outermost positive is_subtype answers issued while real programs were generated and mutated, judged Sound "
                                         "against the completed class table (HEvTrace)"},
    }, time.time() - t0, len(verdict.violations),
        ["class tables are completed before types are built (types captured while a class is under construction are covered by the EV part)",
         "invariant slots compare by syntactic identity"])
    return rc


def show(t):
    if t["k"] == "W":
        return "*" if t["n"] == "star" else "%s %s" % (t["n"], show(t["a"][0]))
    if t["k"] == "V":
        return t["n"] + (" : " + show(t["a"][0]) if t["a"] else "")
    return t["n"] + ("<" + ", ".join(show(a) for a in t["a"]) + ">" if t["a"] else "")


def selftest_run(path):
    data = read_json(path)
    base = {j["case"]: j["n"] for j in validate(path).json}
    cs = data["cases"][0]
    # flip one answer inside the fragment: drop a reflexive pair of a generic instance
    idx = next(i + 1 for i, u in enumerate(cs["u"]) if u["k"] == "C" and u["a"] and u["a"][0]["k"] == "C" and u["a"][0]["n"] == "Int")
    cs["rel"].remove([idx, idx])
    p2 = write_json(path + ".corrupt.json", data)
    after = {j["case"]: j for j in validate(p2).json}
    j = after.get(cs["id"])
    ok = j is not None and any(b[0] == "Reflexive" and b[1] == idx for b in j["bad"]) and j["n"] > base.get(cs["id"], 0)
    print("selftest C06: removed (%s <: itself) from the recorded matrix -> %s" % (show(cs["u"][idx - 1]), "flagged OK" if ok else "NOT flagged"))
    return 0 if ok else 2
