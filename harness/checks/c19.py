"""C19 - graph queries agree with their textbook definitions (spec: HGraph / HGraphGen / HGraphTrace)."""
import os
import time
from core import *

PID = "C19"


def gen_all(n):
    r = tlc_must("HGraphGen", cfg(init="InitAll", next_="Stutter", invariants=["Sane"], constraints=["Emit"],
                                  constants={"N": n}), workers=1, name="gen_all%d" % n, timeout=1200)
    return r


def gen_random(n, num, depth, seed):
    return tlc_must("HGraphGen", cfg(init="InitEmpty", next_="AddEdge", invariants=["Sane"] if n <= 5 else [],
                                     constraints=["Emit"], constants={"N": n}),
                    workers=1, simulate="num=%d" % num, depth=depth, seed=seed, name="gen_rnd%d" % n, timeout=1200)


def dedupe(results):
    seen, cases = set(), []
    for r in results:
        for j in r.json:
            key = (j["n"], tuple(tuple(s) for s in j["g"]))
            if key in seen:
                continue
            seen.add(key)
            cases.append({"id": "n%d/%s" % (j["n"], "|".join(",".join(map(str, s)) for s in j["g"])), "n": j["n"], "g": j["g"]})
    return cases


def validate(path):
    return tlc_must("HGraphTrace", cfg(init="Init", next_="Next", constraints=["Report"]),
                    env={"TRACE_FILE": path}, workers=1, name="val", timeout=3000, mem="3g")


def run(tier, seed, selftest=False, replay=None):
    t0 = time.time()
    gens = []
    T = lambda what: os.environ.get("VERIF_VERBOSE") and print("[c19] %s at %.1fs" % (what, time.time() - t0), flush=True)
    if replay:
        cs = read_json(os.path.join(replay, "case.json"))["case"]
        cases = [{"id": cs["id"].rsplit("/", 1)[0], "n": cs["n"], "g": cs["g"]}]
        exhaustive_upto = 0
    elif tier == "quick":
        jobs = [lambda: gen_all(1), lambda: gen_all(2), lambda: gen_all(3),
                lambda: gen_random(4, 420, 13, seed), lambda: gen_random(5, 40, 12, seed + 1), lambda: gen_random(6, 12, 10, seed + 2)]
        gens = parallel(lambda f: f(), jobs)
        cases = dedupe(gens)
        exhaustive_upto = 3
    else:
        jobs = [lambda: gen_all(1), lambda: gen_all(2), lambda: gen_all(3), lambda: gen_all(4),
                lambda: gen_random(5, 1500, 16, seed + 1), lambda: gen_random(6, 500, 16, seed + 2), lambda: gen_random(7, 120, 14, seed + 3)]
        gens = parallel(lambda f: f(), jobs)
        cases = dedupe(gens)
        exhaustive_upto = 4
    T("generated %d graphs" % len(cases))
    d = subdir("c19")
    parts = chunks(cases, max(1, (len(cases) + NCPU - 1) // NCPU))
    files = []

    def ex(i):
        p = write_json(os.path.join(d, "cases%d.json" % i), parts[i])
        import json as _j
        return _j.loads(run_driver("graph_exec.py", [p, os.path.join(d, "trace%d" % i), 1500]))
    for fl in parallel(ex, range(len(parts))):
        files += fl
    if selftest:
        return selftest_run(files[0])
    T("executed, %d trace files" % len(files))
    vals = parallel(validate, files)
    T("validated")
    verdict = Verdict(PID)
    byid = None
    nbad = 0
    for f, v in zip(files, vals):
        tr = {c["id"]: c for c in read_json(f)["cases"]} if v.json else {}
        for j in v.json:
            for fn in sorted({b[0] for b in j["bad"]}):
                nbad += 1
                verdict.add(fn, tr[j["case"]], "graph function %s disagrees with its definition on graph %s" % (fn, j["case"]))
    rc = verdict.finish()
    states = sum(v.distinct for v in vals)
    sample = read_json(files[-1])["cases"][-1]
    write_evidence(PID, tier, seed, "model_checking", {
        "states": states + sum(g.distinct for g in gens), "transitions": sum(v.generated for v in vals) + sum(g.generated for g in gens),
        "traces_validated_against_impl": states,
        "samples": [{"graph": sample["g"], "vertex": 1, "recorded": sample["res"][0]}],
        "evaluations": states * 12, "distinct_nontrivial": len([c for c in cases if any(c["g"])]),
        "rule": "TLC enumerates every digraph (self-loops included) on 1..n for n <= %d and grows random digraphs on 5..7 vertices edge by edge (-simulate); "
                "each graph is run through all 12 functions of graph_utils from every vertex in two adjacency-container variants "
                "(sorted list + reversed list / set; dfs on Edge lists with sink keys missing); non-trivial = at least one edge; "
                "one validated trace = one (graph, variant) case checked by HGraphTrace against HGraph's definitions" % exhaustive_upto,
        "exhaustive": exhaustive_upto >= 4, "exhaustive_upto_vertices": exhaustive_upto,
        "graphs": len(cases), "design_invariants_checked_on_graphs": sum(g.distinct for g in gens),
        "checker_cmd": "tlc HGraphGen (INIT InitAll | -simulate AddEdge) ; graph_exec.py ; tlc HGraphTrace",
    }, time.time() - t0, len(verdict.violations),
        ["graphs are simple digraphs given as dict vertex -> list/set of successors with every vertex a key (dfs: Edge lists, sink keys optional)",
         "list-valued results are compared as duplicate-free enumerations of the defined set"])
    return rc


def selftest_run(path):
    """Binding demonstration: corrupt one recorded answer and require HGraphTrace to flag exactly that case."""
    data = read_json(path)
    good = validate(path)
    base = {j["case"] for j in good.json}
    cs = data["cases"][len(data["cases"]) // 2]
    cs["res"][0]["reachable"][0] = not cs["res"][0]["reachable"][0]
    p2 = write_json(path + ".corrupt.json", data)
    bad = validate(p2)
    flagged = {j["case"] for j in bad.json} - base
    ok = flagged == {cs["id"]}
    print("selftest C19: corrupted case %s flagged=%s -> %s" % (cs["id"], sorted(flagged), "OK" if ok else "FAILED"))
    return 0 if ok else 2
