"""C10 - type unification returns a unifier or nothing (spec: HUnify / HUnifyGen / HUnifyTrace)."""
import json
import os
import random
import time
from core import *
from c06 import show, LANGS

PID = "C10"


def tables(depth):
    r = tlc_must("HUnifyGen", cfg(init="Init", next_="Next", constraints=["EmitU"], constants={"UDepth": depth}),
                 workers=1, name="gen_unify", timeout=1200)
    seen, out = set(), []
    for j in r.json:
        k = json.dumps(j["id"], sort_keys=True)
        if k not in seen:
            seen.add(k)
            out.append(j)
    return r, out


def validate(path):
    return tlc_must("HUnifyTrace", cfg(init="Init", next_="Next", constraints=["Report"]),
                    env={"TRACE_FILE": path}, workers=1, name="val", timeout=3000, mem="3g")


def run(tier, seed, selftest=False, replay=None):
    if replay:
        import ev_common
        if ev_common.is_ev_case(replay):
            return ev_common.replay_ev(PID, ["unify"], replay)
    t0 = time.time()
    T = lambda what: os.environ.get("VERIF_VERBOSE") and print("[c10] %s at %.1fs" % (what, time.time() - t0), flush=True)
    rnd = random.Random(seed)
    gstates = (0, 0)
    if replay:
        cs = read_json(os.path.join(replay, "case.json"))["case"]
        cases = [{"id": json.loads(cs["id"].rsplit("/", 1)[0]), "ct": cs["ct"], "order": ["A", "B", "Cc", "D"], "u": cs["u"], "ps": cs["ps"], "lang": cs["lang"]}]
    else:
        g, tabs = tables(2)      # nesting 2 in both tiers (nested generic targets such as A<B<Int>> against A<A<X>>); quick samples the tables
        gstates = (g.distinct, g.generated)
        cases = [dict(t, lang=LANGS[(i + seed) % 4]) for i, t in enumerate(tabs)]
        if tier == "quick":
            rnd.shuffle(cases)
            cases = cases[:64]
    T("generated %d table cases" % len(cases))
    d = subdir("c10")
    parts = chunks(cases, max(1, (len(cases) + NCPU - 1) // NCPU))

    def ex(i):
        p = write_json(os.path.join(d, "cases%d.json" % i), parts[i])
        return json.loads(run_driver("unify_exec.py", [p, os.path.join(d, "trace%d" % i), 40]))
    files = [f for fl in parallel(ex, range(len(parts))) for f in fl]
    T("executed")
    if selftest:
        return selftest_run(files[0])
    vals = parallel(validate, files)
    T("validated")
    verdict = Verdict(PID)
    calls = nonempty = 0
    sample = None
    for f, v in zip(files, vals):
        cs = read_json(f)["cases"]
        if v.distinct != len(cs):
            raise MachineryError("validated %d of %d cases in %s" % (v.distinct, len(cs), f))
        calls += sum(c["calls"] for c in cs)
        nonempty += sum(len(c["res"]) for c in cs)
        sample = sample or next((c for c in cs if c["res"]), None)
        tr = {c["id"]: c for c in cs} if v.json else {}
        for j in v.json:
            c = tr[j["case"]]
            for clause, i, k, same, shape in j["bad"]:
                r = next((x for x in c["res"] if x["i"] == i and x["j"] == k and x["same"] == same), None)
                verdict.add("%s/%s" % (clause, shape),
                            {"id": c["id"], "lang": c["lang"], "ct": c["ct"], "u": c["u"], "ps": c["ps"], "target": c["u"][i - 1], "pattern": c["ps"][k - 1],
                             "same_type": same, "result": r and r["sigma"], "count_in_table": j["n"]},
                            "unify_types(%s, %s, same_type=%s) = %s (table %s)" % (
                                show(c["u"][i - 1]), show(c["ps"][k - 1]), same, r and {a: show(b) for a, b in r["sigma"].items()}, c["id"]))
    ev = (0, 0, 0, None)
    if not replay:
        import ev_common
        ev = ev_common.run_ev(PID, ["unify"], tier, seed, verdict,
                              describe=lambda e: "unify_types(%s, %s, same_type=%s) = %s" % (show(e["t1"]), show(e["t2"]), e["same"], {k: show(v) for k, v in e["sigma"].items()}))
    rc = verdict.finish()
    r0 = sample["res"][len(sample["res"]) // 2]
    write_evidence(PID, tier, seed, "model_checking", {
        "states": gstates[0] + sum(v.distinct for v in vals), "transitions": gstates[1] + sum(v.generated for v in vals),
        "traces_validated_against_impl": len(cases),
        "samples": [{"table": sample["id"], "target": show(sample["u"][r0["i"] - 1]), "pattern": show(sample["ps"][r0["j"] - 1]),
                     "same_type": r0["same"], "result": {a: show(b) for a, b in r0["sigma"].items()}}],
        "evaluations": calls, "distinct_nontrivial": nonempty,
        "rule": "for every well-formed table of the HTypesGen family TLC emits the ground universe (targets) and 33 pattern terms over X, "
                "Y : Number, I : Int, Z : A<X> (repeated, bounded, projected, nested variables); unify_types is called on every (target, pattern) pair in "
                "both modes; evaluations = calls, distinct_nontrivial = calls with a non-empty result, each validated by TLC as a unifier (UnifierOK)",
        "tables": len(cases), "exhaustive": tier != "quick",
        "ev_generator_calls": {"programs": ev[0], "distinct_nonempty_results_judged": ev[1], "not_judgeable": ev[2]},
    }, time.time() - t0, len(verdict.violations),
        ["only non-empty results are constrained (the property is one-directional)", "variables are identified by name"])
    return rc


def selftest_run(path):
    data = read_json(path)
    base = {j["case"]: j["n"] for j in validate(path).json}
    cs = next(c for c in data["cases"] if c["res"])
    r = next(x for x in cs["res"] if x["same"] and any(v["k"] == "C" and v["n"] in ("Int", "String") for v in x["sigma"].values()))
    k = next(a for a, v in r["sigma"].items() if v["k"] == "C" and v["n"] in ("Int", "String"))
    r["sigma"][k] = {"k": "C", "n": "String" if r["sigma"][k]["n"] == "Int" else "Int", "a": []}
    p2 = write_json(path + ".corrupt.json", data)
    after = {j["case"]: j["n"] for j in validate(p2).json}
    ok = after.get(cs["id"], 0) > base.get(cs["id"], 0)
    print("selftest C10: replaced one assigned type by another in a recorded unifier -> %s" % ("flagged OK" if ok else "NOT flagged"))
    return 0 if ok else 2
