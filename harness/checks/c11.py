"""C11 - translation is a pure function of the program (spec: HTranslate / HTranslateTrace)."""
import json
import os
import random
import time
from core import *

PID = "C11"
LANGS = ["kotlin", "java", "groovy", "scala"]


def gen(maxlen, simulate=None, seed=0):
    if simulate:
        return tlc_must("HTranslate", cfg(init="Init", next_="GNextSim", constants={"MaxLen": maxlen}), workers=1,
                        simulate="num=%d" % simulate, depth=maxlen + 2, seed=seed, name="gen_tr_sim", timeout=1200)
    return tlc_must("HTranslate", cfg(init="Init", next_="GNext", constants={"MaxLen": maxlen}), workers=1, name="gen_tr", timeout=1200)


def validate(path):
    return tlc_must("HTranslateTrace", cfg(init="TInit2", next_="TNext", constraints=["AtEnd"], constants={"MaxLen": 99}),
                    env={"TRACE_FILE": path}, workers=1, name="val", timeout=3000, mem="3g")


def run(tier, seed, selftest=False, replay=None):
    t0 = time.time()
    T = lambda what: os.environ.get("VERIF_VERBOSE") and print("[c11] %s at %.1fs" % (what, time.time() - t0), flush=True)
    gens = []
    if replay:
        cs = read_json(os.path.join(replay, "case.json"))["case"]
        lang, sd = cs["id"].split("/")[0], int(cs["id"].split("/")[1])
        hists = [[{"op": s["op"], "tr": s["tr"], "prog": s["prog"]} for s in cs["steps"] if not s.get("ref")]]
        jobs = [(lang, [sd])]
    else:
        if tier == "quick":
            gens = parallel(lambda f: f(), [lambda: gen(2), lambda: gen(4, 80, seed), lambda: gen(6, 60, seed + 1)])
            nseeds = 1
        else:
            gens = parallel(lambda f: f(), [lambda: gen(3), lambda: gen(6, 1500, seed), lambda: gen(9, 500, seed + 1)])
            nseeds = 10
        seen, hists = set(), []
        for g in gens:
            for h in g.json:
                k = json.dumps(h, sort_keys=True)
                if k not in seen:
                    seen.add(k)
                    hists.append(h)
        jobs = [(lang, [seed * 100 + 4 * i + LANGS.index(lang)]) for lang in LANGS for i in range(nseeds)]
        if tier == "quick":      # two base programs per language, the histories split over two processes each
            half = (len(hists) + 1) // 2
            jobs = [(lang, [seed * 100 + 4 * i + LANGS.index(lang)], part) for lang in LANGS for i in range(2) for part in (0, 1)]
        else:                    # every base program: all histories of <= 2 steps; the longer ones are dealt over the 10 programs of a language
            jobs = [(lang, [seed * 100 + 4 * i + LANGS.index(lang)], i) for lang in LANGS for i in range(nseeds)]
    T("generated %d histories, %d (language, base program) jobs" % (len(hists), len(jobs)))
    d = subdir("c11")
    hf = write_json(os.path.join(d, "hists.json"), hists)
    if jobs and len(jobs[0]) == 3:
        if tier == "quick":
            hfs = [write_json(os.path.join(d, "hists%d.json" % k), hists[k * half:(k + 1) * half]) for k in (0, 1)]
        else:
            short, rest = [h for h in hists if len(h) <= 2], [h for h in hists if len(h) > 2]
            hfs = [write_json(os.path.join(d, "hists%d.json" % k), short + rest[k::nseeds]) for k in range(nseeds)]

    def ex(i):
        if len(jobs[i]) == 3:
            lang, seeds, part = jobs[i]
            return json.loads(run_driver("trans_exec.py", [lang, json.dumps(seeds), hfs[part], os.path.join(d, "trace%d.json" % i), 90 if tier == "quick" else 900], timeout=3400))
        lang, seeds = jobs[i]
        return json.loads(run_driver("trans_exec.py", [lang, json.dumps(seeds), hf, os.path.join(d, "trace%d.json" % i), 900], timeout=3400))
    files = [f for fl in parallel(ex, range(len(jobs))) for f in fl]
    T("executed")
    if selftest:
        return selftest_run(files[0])
    vals = parallel(validate, files)
    T("validated")
    verdict = Verdict(PID)
    steps = ncases = 0
    sample = None
    for f, v in zip(files, vals):
        cases = read_json(f)["cases"]
        ncases += len(cases)
        steps += sum(len(c["steps"]) for c in cases)
        if v.distinct != sum(len(c["steps"]) + 1 for c in cases):
            raise MachineryError("trace validation consumed %d states, expected %d" % (v.distinct, sum(len(c["steps"]) + 1 for c in cases)))
        sample = sample or cases[len(cases) // 2]
        tr = {c["id"]: c for c in cases} if v.json else {}
        for j in v.json:
            for step, cl in j["bad"]:
                c = tr[j["case"]]
                verdict.add(cl, c, "clause %s at step %d of translation history %s: %s" % (
                    cl, step, c["id"], [(s["op"], s["tr"], s["prog"]) for s in c["steps"]]))
    rc = verdict.finish()
    write_evidence(PID, tier, seed, "model_checking", {
        "states": sum(g.distinct for g in gens) + sum(v.distinct for v in vals), "transitions": sum(g.generated for g in gens) + sum(v.generated for v in vals),
        "traces_validated_against_impl": ncases,
        "histories_not_run_for_slow_base_programs": [x for f in files for x in read_json(f).get("skipped", [])],
        "samples": [sample],
        "evaluations": steps, "distinct_nontrivial": len(hists),
        "rule": "TLC enumerates every history of <= %d translation calls over {reused translator, reused translator of another language, fresh "
                "translator} x {generated program, its erasure, its overwriting, another program}, interleaved with in-place mutations of a program "
                "object (the pipeline's own erasure / overwriting), and random histories up to length %d; each "
                "history is executed for %d base program(s) per language with the real translators; per call the text digest and the pickle "
                "snapshot of the program before/after are recorded (every call through the reused translator is followed by a reference call through a fresh one) and validated (Functional, ProgramUnchanged, NoException). "
                "evaluations = translation calls, distinct = distinct histories" % (2 if tier == "quick" else 3, 6 if tier == "quick" else 9,
                                                                                 2 if tier == "quick" else 10),
        "exhaustive": False,
    }, time.time() - t0, len(verdict.violations),
        ["translator options are fixed per run; two package names, re-targeted on live translators as the driver does",
         "every history is also compared with the texts taken at the start of its process (fresh translators), so state leaking across histories is seen", "programs are sampled (seeds); histories are exhaustive up to the stated length"])
    return rc


def selftest_run(path):
    data = read_json(path)
    c = next(x for x in data["cases"] if len(x["steps"]) >= 2 and all(s["op"] == "tr" for s in x["steps"]) and x["steps"][0]["tr"] != "B" and
             any(s["tr"] != "B" and s["prog"] == x["steps"][0]["prog"] for s in x["steps"][1:]))
    c["steps"][0]["text"] = "deadbeef0000"
    p2 = write_json(path + ".corrupt.json", data)
    flagged = {j["case"] for j in validate(p2).json}
    ok = c["id"] in flagged
    print("selftest C11: changed the first recorded text digest of %s -> %s" % (c["id"], "flagged OK" if ok else "NOT flagged"))
    return 0 if ok else 2
