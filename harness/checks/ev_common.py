"""EV part shared by C06 / C08 / C09 / C10: validate the calls the generator and the mutations issue (spec: HEvTrace)."""
import json
import os
from core import *
import typing_common as tc
from c06 import show


def validate(path):
    return tlc_must("HEvTrace", cfg(init="Init", next_="Next", constraints=["EvReport"]), env={"TRACE_FILE": path}, workers=1, name="ev", timeout=3400, mem="4g")


def is_ev_case(replay):
    cs = read_json(os.path.join(replay, "case.json"))
    return str(cs.get("key", "")).startswith("EV:")


def replay_ev(pid, kinds, replay, describe=None):
    """re-generate the program of a stored EV case and validate the calls issued for it again"""
    cs = read_json(os.path.join(replay, "case.json"))["case"]
    lang, bits, sd = cs["id"].split("/")[:3]
    sw = dict(zip(("disUse", "disContra", "noBounds", "noParamFn"), [b == "1" for b in bits]))
    verdict = Verdict(pid)
    run_ev(pid, kinds, "quick", 0, verdict, describe=describe, only=[(lang, sw, [int(sd)])])
    return verdict.finish()


def run_ev(pid, kinds, tier, seed, verdict, per_quick=3, per_thorough=25, describe=None, only=None):
    """returns (programs, events judged, events skipped, sample event)"""
    jobs = only or tc.jobs_for(tier, seed + 31, per_quick, per_thorough)
    d = subdir(pid.lower() + "ev")

    def ex(i):
        lang, sw, seeds = jobs[i]
        return json.loads(run_driver("ev_ops.py", [lang, json.dumps(sw), json.dumps(seeds), os.path.join(d, "ev%d.json" % i), ",".join(kinds)], timeout=3400))
    files = [f for fl in parallel(ex, range(len(jobs))) for f in fl]
    files = [f for f in files if any(c["events"] for c in read_json(f)["cases"])]
    vals = parallel(validate, files)
    nprog = judged = skipped = 0
    sample = None
    for f, v in zip(files, vals):
        cases = {c["id"]: c for c in read_json(f)["cases"]}
        nprog += len(cases)
        total = sum(len(c["events"]) for c in cases.values())
        if v.distinct != total:
            raise MachineryError("EV: validated %d of %d events in %s" % (v.distinct, total, f))
        sk = sum(1 for j in v.json if j["skipped"])
        skipped += sk
        judged += total - sk
        for c in cases.values():
            if sample is None and c["events"]:
                sample = c["events"][len(c["events"]) // 2]
        for j in v.json:
            if j["skipped"]:
                continue
            c = cases[j["case"]]
            ev = c["events"][j["event"] - 1]
            for clause, shape in j["bad"]:
                key = "%s/%s" % (clause if "." in clause else ev["kind"] + "." + clause, shape)
                if pid in ("C06", "C10"):        # these checks name their clauses without the operation (Sound/.., Unifier/..)
                    key = key.split(".", 1)[1]
                verdict.add("EV:" + key, {"id": c["id"], "lang": c["lang"], "ct": c["ct"], "event": ev},
                            "during generation of %s: %s" % (c["id"], describe(ev) if describe else json.dumps(ev)[:300]))
    return nprog, judged, skipped, sample
