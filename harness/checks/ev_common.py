"""EV part shared by C06 / C08 / C09 / C10: validate the calls the generator and the mutations issue (spec: HEvTrace)."""
import json
import os
from core import *
import typing_common as tc
from c06 import show


def validate(path):
    return tlc_must("HEvTrace", cfg(init="Init", next_="Next", constraints=["EvReport"]), env={"TRACE_FILE": path}, workers=1, name="ev", timeout=3400, mem="4g")


def is_ev_case(replay):
    cs = read_json(os.path.join(replay, "case.json"))
    return str(cs.get("key", "")).startswith("EV:")


def replay_ev(pid, kinds, replay, describe=None):
    """re-generate the program of a stored EV case and validate the calls issued for it again"""
    cs = read_json(os.path.join(replay, "case.json"))["case"]
    lang, bits, sd = cs["id"].split("/")[:3]
    sw = dict(zip(("disUse", "disContra", "noBounds", "noParamFn"), [b == "1" for b in bits]))
    verdict = Verdict(pid)
    run_ev(pid, kinds, "quick", 0, verdict, describe=describe, only=[(lang, sw, [int(sd)])])
    return verdict.finish()


def run_ev(pid, kinds, tier, seed, verdict, per_quick=3, per_thorough=25, describe=None, only=None):
    """returns (programs, events judged, events skipped, sample event)"""
    jobs = only or tc.jobs_for(tier, seed + 31, per_quick, per_thorough)
    d = subdir(pid.lower() + "ev")

    def ex(i):
        lang, sw, seeds = jobs[i]
        return json.loads(run_driver("ev_ops.py", [lang, json.dumps(sw), json.dumps(seeds), os.path.join(d, "ev%d.json" % i), ",".join(kinds)], timeout=3400))
    files = [f for fl in parallel(ex, range(len(jobs))) for f in fl]
    files = [f for f in files if any(c["events"] for c in read_json(f)["cases"])]
    vals = parallel(validate, files)
    nprog = judged = skipped = 0
    sample = None
    for f, v in zip(files, vals):
        cases = {c["id"]: c for c in read_json(f)["cases"]}
        nprog += len(cases)
        total = sum(len(c["events"]) for c in cases.values())
        if v.distinct != total:
            raise MachineryError("EV: validated %d of %d events in %s" % (v.distinct, total, f))
        sk = sum(1 for j in v.json if j["skipped"])
        skipped += sk
        judged += total - sk
        for c in cases.values():
            if sample is None and c["events"]:
                sample = c["events"][len(c["events"]) // 2]
        for j in v.json:
            if j["skipped"]:
                continue
            c = cases[j["case"]]
            ev = c["events"][j["event"] - 1]
            for clause, shape in j["bad"]:
                key = "%s/%s" % (clause if "." in clause else ev["kind"] + "." + clause, shape)
                if pid in ("C06", "C10"):        # these checks name their clauses without the operation (Sound/.., Unifier/..)
                    key = key.split(".", 1)[1]
                verdict.add("EV:" + key, {"id": c["id"], "lang": c["lang"], "ct": c["ct"], "event": ev},
                            "during generation of %s: %s" % (c["id"], describe(ev) if describe else json.dumps(ev)[:300]))
    return nprog, judged, skipped, sample


# ---- generator scenes (spec/HGenScene.tla): TLC-enumerated symbol-table contents and requests, executed by a real Generator ----------
SCENE_CLAUSES = {
    # match.FunctionTypeArgumentProjected is informational: C08 does not forbid it (the generator's choices simply do not mention the
    # method's parameters, and an unmentioned parameter may be projected); counted in the evidence, see DESIGN.md section 5
    "C08": ("instantiate.", "match.OneArgumentPerParameter", "match.NoPrimitiveOrBareArgument", "match.NoException"),
    "C01": ("match.MemberTyped", "compare.", "pick."),
    "C05": ("prune.",),
}
INFO = {}
SCENE_KINDS = {"C08": ("match",), "C01": ("match", "compare", "pick"), "C05": ("prune",)}


def run_scenes(pid, tier, verdict, langs=("java", "kotlin", "groovy", "scala")):
    """returns (scenes executed, events judged, sample event)"""
    g = tlc_must("HGenScene", cfg(init="Init", next_="Next", constraints=["Emit"]), workers=1, name="gen_scene", timeout=600)
    seen, scenes = set(), []
    for j in g.json:
        k = json.dumps(j["id"], sort_keys=True)
        if k not in seen and j["id"]["kind"] in SCENE_KINDS[pid]:
            seen.add(k)
            scenes.append(j)
    d = subdir(pid.lower() + "scenes")
    sf = write_json(os.path.join(d, "scenes.json"), scenes)
    sw = {"disUse": False, "disContra": False, "noBounds": False, "noParamFn": False}
    nseeds = 12 if tier == "quick" else 60

    def ex(lang):
        return json.loads(run_driver("ev_ops.py", [lang, json.dumps(sw), "[]", os.path.join(d, "sc_%s.json" % lang), "instantiate", sf, nseeds], timeout=3400))
    files = [f for fl in parallel(ex, list(langs)) for f in fl]
    vals = parallel(validate, files)
    judged = 0
    sample = None
    INFO.clear()
    for f, v in zip(files, vals):
        cases = {c["id"]: c for c in read_json(f)["cases"]}
        total = sum(len(c["events"]) for c in cases.values())
        if v.distinct != total:
            raise MachineryError("scenes: validated %d of %d events in %s" % (v.distinct, total, f))
        judged += total - sum(1 for j in v.json if j["skipped"])
        for c in cases.values():
            for ev in c["events"]:
                sample = sample or (ev if ev["kind"] != "instantiate" else None)
        for j in v.json:
            c = cases[j["case"]]
            ev = c["events"][j["event"] - 1]
            if j["skipped"]:
                raise MachineryError("scene event not judgeable: %s" % json.dumps(ev)[:300])
            for clause, shape in j["bad"]:
                clause = clause if "." in clause else ev["kind"] + "." + clause
                if clause == "match.FunctionTypeArgumentProjected":
                    INFO[clause] = INFO.get(clause, 0) + 1
                if clause.startswith(SCENE_CLAUSES[pid]):
                    verdict.add("GS:%s/%s" % (clause, shape), {"id": c["id"], "lang": c["lang"], "ct": c["ct"], "event": ev},
                                "generator scene %s: %s" % (c["id"][:160], json.dumps(ev)[:400]))
    return len(scenes) * len(langs), judged, sample
