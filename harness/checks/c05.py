"""C05 - generated programs are closed and respect scoping and mutability rules (spec: HTyping, the scope half of the walk)."""
import c01
import typing_common as tc

PID = "C05"


def run(tier, seed, selftest=False, replay=None):
    return c01.run(tier, seed + 7, selftest=selftest, replay=replay, pid=PID, families=tc.C05_CLAUSES)
