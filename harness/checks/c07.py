"""C07 - instantiation substitutes everywhere and mutates nothing (spec: HTypeHeap / HTypeHeapGen / HTypeHeapTrace)."""
import json
import os
import time
from core import *

PID = "C07"
LANGS = ["kotlin", "java", "groovy", "scala"]


def gen(table, maxlen, simulate=None, seed=0):
    text = cfg(init="GInit", next_="GNext", constants={"MaxLen": maxlen, "TableId": table})
    kw = dict(workers=1, name="gen_heap%d_%d" % (table, maxlen), timeout=2400)
    if simulate:
        kw.update(simulate="num=%d" % simulate, depth=maxlen + 2, seed=seed)
    return tlc_must("HTypeHeapGen", text, **kw)


def validate(path):
    return tlc_must("HTypeHeapTrace", cfg(init="TInit", next_="TNext", constraints=["Report"]),
                    env={"TRACE_FILE": path}, workers=1, name="val", timeout=3000, mem="3g")


def run(tier, seed, selftest=False, replay=None):
    t0 = time.time()
    T = lambda what: os.environ.get("VERIF_VERBOSE") and print("[c07] %s at %.1fs" % (what, time.time() - t0), flush=True)
    gens = []
    cs = {}
    if replay:
        cs = read_json(os.path.join(replay, "case.json"))["case"]
        if "input" not in cs:          # an EV case: regenerate that program and validate its calls again
            verdict = Verdict(PID)
            lang, swbits, sd = cs["id"].split("#")[0].split("/")
            run_ev(tier, seed, verdict, [(lang, dict(zip(("disUse", "disContra", "noBounds", "noParamFn"), [b == "1" for b in swbits])), [int(sd)])])
            return verdict.finish()
        cases = [cs["input"]]
    else:
        if tier == "quick":
            jobs = [lambda: gen(1, 2), lambda: gen(2, 2), lambda: gen(1, 5, 700, seed), lambda: gen(2, 4, 700, seed + 1)]
        else:
            jobs = [lambda: gen(1, 2), lambda: gen(2, 2), lambda: gen(1, 3), lambda: gen(1, 6, 20000, seed), lambda: gen(2, 5, 20000, seed + 1)]
        gens = parallel(lambda f: f(), jobs)
        seen, cases = set(), []
        for g in gens:
            for j in g.json:
                k = json.dumps([j["table"], j["hist"]], sort_keys=True)
                if k in seen:
                    continue
                seen.add(k)
                cases.append({"id": "h%d" % len(cases), "lang": LANGS[(len(cases) + seed) % 4], "ct": j["ct"], "order": j["order"], "hist": j["hist"]})
    T("generated %d histories" % len(cases))
    d = subdir("c07")
    parts = chunks(cases, max(1, (len(cases) + NCPU - 1) // NCPU))
    byid = {c["id"]: c for c in cases}

    def ex(i):
        p = write_json(os.path.join(d, "cases%d.json" % i), parts[i])
        return json.loads(run_driver("heap_exec.py", [p, os.path.join(d, "trace%d" % i), 3000]))
    files = [f for fl in parallel(ex, range(len(parts))) for f in fl]
    T("executed")
    if selftest:
        return selftest_run(files[0])
    vals = parallel(validate, files)
    T("validated")
    verdict = Verdict(PID)
    steps = 0
    ops = {}
    sample = None
    for f, v in zip(files, vals):
        cs = read_json(f)["cases"]
        expect = sum(len(c["steps"]) + 1 for c in cs)
        if v.distinct != expect:
            raise MachineryError("trace validation consumed %d states, expected %d (%s)" % (v.distinct, expect, f))
        steps += sum(len(c["steps"]) for c in cs)
        for c in cs:
            for s in c["steps"]:
                ops[s["op"]] = ops.get(s["op"], 0) + 1
        sample = sample or cs[len(cs) // 2]
        tr = {c["id"]: c for c in cs} if v.json else {}
        for j in v.json:
            for cl in j["bad"]:
                c = tr[j["case"]]
                verdict.add(cl, {"id": c["id"], "step": j["step"], "recorded": c["steps"][:j["step"]], "input": byid[c["id"]]},
                            "clause %s violated at step %d (%s) of history %s" % (cl, j["step"], c["steps"][j["step"] - 1]["op"], c["id"]))
    ev = run_ev(tier, seed, verdict) if not replay else None
    T("EV")
    rc = verdict.finish()
    write_evidence(PID, tier, seed, "model_checking", {
        "ev_generator_issued_calls": ev,
        "states": sum(g.distinct for g in gens) + sum(v.distinct for v in vals),
        "transitions": sum(g.generated for g in gens) + sum(v.generated for v in vals),
        "traces_validated_against_impl": len(cases),
        "samples": [{"history": [{k: s[k] for k in ("op", "c", "args", "r", "r2", "sigma")} for s in sample["steps"]],
                     "last_result": sample["steps"][-1]["res"], "last_supertypes": sample["steps"][-1]["supers"]}],
        "evaluations": steps, "distinct_nontrivial": len(cases), "operations_by_kind": ops,
        "rule": "TLC enumerates every history of length 2 (and 3 in the thorough tier) of new / self-type / re-new on an earlier result's "
                "constructor / substitute / to_variance_free / to_type_variable_free / is_subtype over two three-level generic tables "
                "(X<T> : Y<Z<T>>, bounded W<T, U : Y<T>>, projection in a super-argument) and random longer histories; each is executed on one "
                "shared set of real declarations; after every step the result, its transitive supertypes and the snapshots of all earlier objects "
                "are recorded and validated by HTypeHeapTrace. distinct = distinct histories.",
        "exhaustive": False,
    }, time.time() - t0, len(verdict.violations),
        ["supertypes are compared for variable-free instantiations only (the code deliberately skips substitution otherwise)",
         "the result of to_type_variable_free is only required to be variable free and to mutate nothing"])
    return rc


def run_ev(tier, seed, verdict, only=None):
    """EV: the TypeConstructor.new / substitute_type calls issued while real programs are generated, erased and overwritten, as two-step
    histories of HTypeHeap (given; operation), validated by the same trace spec against the finished program's class table."""
    import typing_common as tc
    jobs = only or tc.jobs_for(tier, seed + 41, 2, 12)
    d = subdir("c07ev")

    def ex(i):
        lang, sw, seeds = jobs[i]
        return json.loads(run_driver("ev_heap.py", [lang, json.dumps(sw), json.dumps(seeds), os.path.join(d, "ev%d.json" % i)], timeout=3400))
    files = [f for fl in parallel(ex, range(len(jobs))) for f in fl]
    files = [f for f in files if read_json(f)["cases"]]
    vals = parallel(validate, files)
    ncalls, kinds = 0, {}
    for f, v in zip(files, vals):
        cs = {c["id"]: c for c in read_json(f)["cases"]}
        ncalls += len(cs)
        if v.distinct != sum(len(c["steps"]) + 1 for c in cs.values()):
            raise MachineryError("EV: validated %d states in %s" % (v.distinct, f))
        for c in cs.values():
            kinds[c["steps"][-1]["op"]] = kinds.get(c["steps"][-1]["op"], 0) + 1
        for j in v.json:
            c = cs[j["case"]]
            for cl in j["bad"]:
                verdict.add("EV:" + cl, {"id": c["id"], "lang": c["lang"], "step": j["step"], "steps": c["steps"], "ct": c["ct"]},
                            "during generation of %s: %s violated by %s" % (c["id"], cl, json.dumps([{k: s[k] for k in ("op", "c", "args", "sigma", "res")} for s in c["steps"]])[:400]))
    return {"calls_validated": ncalls, "by_operation": kinds, "programs": sum(len(j[2]) for j in jobs)}


def selftest_run(path):
    data = read_json(path)
    base = {(j["case"], j["step"]) for j in validate(path).json}
    cs = next(c for c in data["cases"] if c["steps"][-1]["supers"] and len(c["steps"][-1]["supers"]) > 1)
    cs["steps"][-1]["supers"].pop()            # drop one transitive supertype from the record
    cs2 = data["cases"][0]
    cs2["steps"][-1]["changed"] = [1]          # pretend object 1 was mutated
    p2 = write_json(path + ".corrupt.json", data)
    flagged = {(j["case"], j["step"]): j["bad"] for j in validate(p2).json if (j["case"], j["step"]) not in base}
    ok = "SupertypesSubstituted" in flagged.get((cs["id"], len(cs["steps"])), []) and "Immutable" in flagged.get((cs2["id"], len(cs2["steps"])), [])
    print("selftest C07: dropped a supertype / marked an object mutated -> %s" % ("both flagged OK" if ok else "NOT flagged: %s" % flagged))
    return 0 if ok else 2
