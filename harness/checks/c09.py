"""C09 - subtype search and irrelevant-type search return only what they promise (spec: HTypeOps / HTypeOpsTrace)."""
import json
import os
import random
import time
from core import *
from c06 import show, LANGS, tables

PID = "C09"


def validate(path):
    return tlc_must("HTypeOpsTrace", cfg(init="Init", next_="Next", constraints=["Report"]),
                    env={"TRACE_FILE": path}, workers=1, name="val", timeout=3000, mem="3g")


def judge(pid, files, vals, verdict, kinds):
    """Shared by C08/C09: map TLC's per-event verdicts to violations; returns counters."""
    n_events = n_results = leaves = 0
    sample = None
    for f, v in zip(files, vals):
        cs = read_json(f)["cases"]
        expect = sum(len(c["events"]) for c in cs)
        if v.distinct != expect:
            raise MachineryError("validated %d of %d events in %s" % (v.distinct, expect, f))
        for c in cs:
            for ev in c["events"]:
                if ev["kind"] in kinds:
                    n_events += 1
                    n_results += len(ev["res"])
                    leaves += ev.get("leaves", 1)
                    if sample is None and ev["res"]:
                        sample = (c, ev)
        tr = {c["id"]: c for c in cs} if v.json else {}
        for j in v.json:
            c = tr[j["case"]]
            ev = c["events"][j["event"] - 1]
            if ev["kind"] not in kinds:
                continue
            for clause, shape in j["bad"]:
                verdict.add("%s.%s/%s" % (ev["kind"], clause, shape), {"id": c["id"], "lang": c["lang"], "ct": c["ct"], "event": ev},
                            "%s(%s%s) -> offending %s of %d results%s (table %s)" % (
                                ev["kind"], show(ev["T"]) if "T" in ev else "", ev.get("argdesc", ""),
                                [show(r) for r in j.get("off", [])][:4], len(ev["res"]), " exc=%s" % ev["exc"] if ev["exc"] else "", c["id"]))
    return n_events, n_results, leaves, sample


def run(tier, seed, selftest=False, replay=None):
    if replay:
        import ev_common
        if ev_common.is_ev_case(replay):
            return ev_common.replay_ev(PID, ["find_subtypes", "find_irrelevant"], replay)
    t0 = time.time()
    T = lambda what: os.environ.get("VERIF_VERBOSE") and print("[c09] %s at %.1fs" % (what, time.time() - t0), flush=True)
    rnd = random.Random(seed)
    gstates = (0, 0)
    if replay:
        cs = read_json(os.path.join(replay, "case.json"))["case"]
        cases = [{"id": json.loads(cs["id"].rsplit("/", 1)[0]), "ct": cs["ct"], "order": ["A", "B", "Cc", "D"], "u": [cs["event"]["T"]], "queries": [1], "lang": cs["lang"]}]
        max_leaves = 4000
    else:
        g, tabs = tables(2, arrays=True)
        gstates = (g.distinct, g.generated)
        cases = [dict(t, lang=LANGS[(i + seed) % 4]) for i, t in enumerate(tabs)]
        rnd.shuffle(cases)
        nq = 14 if tier == "quick" else 45
        cases = cases[:48] if tier == "quick" else cases
        for c in cases:
            idx = [i + 1 for i, u in enumerate(c["u"]) if u["k"] == "C"]
            rnd.shuffle(idx)
            c["queries"] = sorted(idx[:nq])
            # tables with a parameter bounded by a sibling: the instantiations with the *same* type in both slots, projected in the
            # dependent one (D<g, in g>, D<g, out g>) - shapes instantiate_type_constructor produces
            tps = c["ct"].get("D", {}).get("tp", [])
            if len(tps) == 2 and tps[1]["b"] and tps[1]["b"][0]["k"] == "V" and tps[1]["b"][0]["n"] == tps[0]["n"]:
                for gname in ("Number", "Any"):
                    gt = {"k": "C", "n": gname, "a": []}
                    for pol in ("in", "out"):
                        q = {"k": "C", "n": "D", "a": [gt, {"k": "W", "n": pol, "a": [gt]}]}
                        if q not in c["u"]:
                            c["u"].append(q)
                        c["queries"].append(c["u"].index(q) + 1)
                c["queries"] = sorted(set(c["queries"]))
            vq = []
            for qi in c["queries"][:3]:
                g = c["u"][qi - 1]
                x = {"k": "V", "n": "Xv", "a": [g]}
                vq += [x, {"k": "V", "n": "Av", "a": [x]}]
            c["vqueries"] = vq
        max_leaves = 150 if tier == "quick" else 600
    T("generated %d table cases" % len(cases))
    d = subdir("c09")
    parts = chunks(cases, max(1, (len(cases) + NCPU - 1) // NCPU))

    def ex(i):
        p = write_json(os.path.join(d, "cases%d.json" % i), parts[i])
        return json.loads(run_driver("find_exec.py", [p, os.path.join(d, "trace%d" % i), 12, seed, max_leaves]))
    files = [f for fl in parallel(ex, range(len(parts))) for f in fl]
    T("executed")
    if selftest:
        return selftest_run(files[0])
    vals = parallel(validate, files)
    T("validated")
    verdict = Verdict(PID)
    n_events, n_results, leaves, sample = judge(PID, files, vals, verdict, ("find_subtypes", "find_irrelevant"))
    ev = (0, 0, 0, None)
    if not replay:
        import ev_common
        ev = ev_common.run_ev(PID, ["find_subtypes", "find_irrelevant"], tier, seed, verdict,
                              describe=lambda e: "%s(%s) -> %s" % (e["kind"], show(e["T"]), [show(r) for r in e["res"]][:5]))
    rc = verdict.finish()
    write_evidence(PID, tier, seed, "model_checking", {
        "ev_generator_calls": {"programs": ev[0], "distinct_calls_judged": ev[1], "not_judgeable": ev[2]},
        "states": gstates[0] + sum(v.distinct for v in vals), "transitions": gstates[1] + sum(v.generated for v in vals),
        "traces_validated_against_impl": n_events,
        "samples": [{"table": sample[0]["id"], "call": sample[1]["kind"], "T": show(sample[1]["T"]), "include_self": sample[1]["include_self"],
                     "concrete_only": sample[1]["concrete_only"], "all_results_over_random_choices": [show(r) for r in sample[1]["res"]][:12]}],
        "evaluations": leaves, "distinct_nontrivial": n_results,
        "rule": "tables of the HTypesGen family x query types drawn from the universe (nesting <= 2, projections included) x the four "
                "(include_self, concrete_only) settings of find_subtypes and find_irrelevant_type, executed under a choice oracle that "
                "enumerates every outcome of the random choices (depth-first, up to a leaf budget, sampled beyond); evaluations = executions, "
                "distinct_nontrivial = distinct returned types judged by TLC against the declarative relation",
        "tables": len(cases), "calls": n_events, "exhaustive": False,
    }, time.time() - t0, len(verdict.violations),
        ["results are judged against the completed class table", "a bare generic class in a result is read as its self type"])
    return rc


def selftest_run(path):
    data = read_json(path)
    base = {(j["case"], j["event"]) for j in validate(path).json}
    cs = data["cases"][0]
    k, ev = next((k, e) for k, e in enumerate(cs["events"]) if e["kind"] == "find_subtypes" and e["T"]["n"] == "A" and not e["exc"])
    ev["res"].append({"k": "C", "n": "String", "a": []})
    p2 = write_json(path + ".corrupt.json", data)
    flagged = {(j["case"], j["event"]) for j in validate(p2).json} - base
    ok = (cs["id"], k + 1) in flagged
    print("selftest C09: added String to the recorded subtypes of %s -> %s" % (show(ev["T"]), "flagged OK" if ok else "NOT flagged"))
    return 0 if ok else 2
