"""C02 - Java translations of valid programs compile with javac (spec: HJavac contract; javac is the observed judge)."""
import itertools
import json
import re
import os
import random
import time
from core import *

PID = "C02"


def sibling_bound(header, tv):
    """does the generic header declare `tv extends P` where P is another type parameter of the same header?"""
    i = header.find("<")
    depth, cur, items = 0, "", []
    for ch in header[i:]:
        if ch == "<":
            depth += 1
            if depth == 1:
                continue
        elif ch == ">":
            depth -= 1
            if depth == 0:
                items.append(cur)
                break
        if ch == "," and depth == 1:
            items.append(cur)
            cur = ""
        else:
            cur += ch
    names = {it.split()[0] for it in items if it.split()}
    for it in items:
        w = it.split()
        if len(w) == 3 and w[0] == tv and w[1] == "extends" and w[2] in names:
            return True
    return False
NF = 6      # files per pool: 3 generated programs and their erasures


def gen_schedules(num, seed):
    r = tlc_must("HJavac", cfg(init="Init", next_="GNext", constants={"NFiles": NF, "MaxBatches": 2, "MaxBatchSize": 4}), workers=1,
                 simulate="num=%d" % num, depth=5, seed=seed, name="gen_sched", timeout=900)
    return r


def validate(path):
    return tlc_must("HJavacTrace", cfg(init="TInit", next_="TNext", constraints=["AtEnd"], constants={"NFiles": 12, "MaxBatches": 9, "MaxBatchSize": 4}),
                    env={"TRACE_FILE": path}, workers=1, name="val", timeout=3000)


def run(tier, seed, selftest=False, replay=None):
    t0 = time.time()
    rnd = random.Random(seed)
    if replay:
        cs = read_json(os.path.join(replay, "case.json"))["case"]
        _, swbits, sd, _ = cs["id"].split("/")
        jobs = [(dict(zip(("disUse", "disContra", "noBounds", "noParamFn"), [b == "1" for b in swbits])), [int(sd) + i for i in range(NF // 2)])]
        g = None
        scheds = [cs["schedule"]]
    else:
        g = gen_schedules(3 if tier == "quick" else 12, seed)
        scheds, seen = [], set()
        for s in g.json:
            k = json.dumps(s)
            if k not in seen:
                seen.add(k)
                scheds.append(s)
        npools = 12 if tier == "quick" else 160
        sws = list(itertools.product([False, True], repeat=4))
        jobs = []
        for i in range(npools):
            bits = sws[rnd.randrange(16)] if i % 2 else (False, False, False, False)
            jobs.append((dict(zip(("disUse", "disContra", "noBounds", "noParamFn"), bits)), [seed * 100000 + 10 * i + k for k in range(NF // 2)]))
    d = subdir("c02")
    sf = write_json(os.path.join(d, "sched.json"), scheds)

    def ex(i):
        sw, seeds = jobs[i]
        return json.loads(run_driver("javac_pipe.py", [json.dumps(sw), json.dumps(seeds), sf, os.path.join(d, "runs%d.json" % i)], timeout=3400))
    files = [f for fl in parallel(ex, range(len(jobs))) for f in fl]
    if selftest:
        return selftest_run(files[0])
    vals = parallel(validate, files)
    verdict = Verdict(PID)
    nprog = ncomp = 0
    sample = None
    for f, v in zip(files, vals):
        runs = read_json(f)["runs"]
        nprog += runs[0]["nfiles"] if runs else 0
        tr = {r["id"]: r for r in runs}
        for r in runs:
            ncomp += len(r["events"])
            sample = sample or r
        got = {j["run"]: j for j in v.json}
        for r in runs:
            j = got.get(r["id"])
            if j is None:
                raise MachineryError("no verdict for run " + r["id"])
            for pos, cl, f_ in j["bad"]:
                e = r["events"][pos - 1]
                # known-finding shape, read off javac's own diagnostic: an *erased* program in which javac's inference for a diamond
                # produced a captured type variable (CAP#n) that a later argument does not fit
                if cl == "PassOracle" and f_ % 2 == 0 and "CAP#" in e["out"] and "<>" in e["out"]:
                    cl = "PassOracle/ErasedDiamondCapture"
                # known-finding shape, read off javac's diagnostic and the class headers: a type argument outside the bound of a type
                # variable that is bounded by a sibling type parameter (class Stallone<L, X extends L>) - the C09 / C01 DependentParam family
                m = re.search(r"not within bounds of type-variable (\w+)", e["out"])
                if cl == "PassOracle" and m and any(sibling_bound(h, m.group(1)) for h in e.get("headers", [])):
                    cl = "PassOracle/DependentParamBound"
                verdict.add(cl, {"id": r["id"], "event": e, "file": f_, "schedule": [x["batch"] for x in r["events"] if len(x["batch"]) > 1]},
                            "%s for file %s (%s program) in batch %s of %s; javac: %s" % (
                                cl, f_, "generated" if f_ % 2 else "erased", e["batch"], r["id"], e["out"][:300].replace("\n", " | ")))
    rc = verdict.finish()
    write_evidence(PID, tier, seed, "other", {
        "explanation": "javac is the judge the property names; the TLA+ spec (HJavac) contributes the oracle contract that every observed Compile "
                       "event must satisfy - PassOracle (no expected-pass file among the files javac rejects) and BatchIndependent (same verdict alone and "
                       "in every batch) - and TLC generates the batch schedules and validates the recorded events. Programs: generated Java programs and "
                       "their erasures, translated by the real JavaTranslator, laid out as the driver does, compiled by the real javac 17, output "
                       "attributed by the real analyze_compiler_output.",
        "evaluations": ncomp, "distinct_nontrivial": nprog, "programs": nprog,
        "samples": [{"run": sample["id"], "events": [{k: e[k] for k in ("batch", "failed", "crash")} for e in sample["events"]][:10]}],
        "schedules": scheds[:4], "states": (g.distinct if g else 0) + sum(v.distinct for v in vals),
    }, time.time() - t0, len(verdict.violations),
        ["javac 17 is trusted as the judge; a javac bug would surface as a violation and be triaged by hand"])
    return rc


def selftest_run(path):
    data = read_json(path)
    r = data["runs"][0]
    e = next(x for x in r["events"] if len(x["batch"]) > 1)
    e["failed"] = [e["batch"][0]]
    p2 = write_json(path + ".corrupt.json", data)
    bad = {b[1] for j in validate(p2).json if j["run"] == r["id"] for b in j["bad"]}
    ok = {"PassOracle", "BatchIndependent"} <= bad
    print("selftest C02: recorded a rejection inside a batch for a file accepted alone -> %s" % ("PassOracle and BatchIndependent flagged" if ok else "NOT flagged: %s" % bad))
    return 0 if ok else 2
