"""C03 - type erasure only removes inferable type information (spec: HMutation frame + HTyping in inference mode)."""
import json
import os
import time
from core import *
import typing_common as tc

PID = "C03"
KIND = "erase"
WELLTYPED = tc.C01_CLAUSES + tc.C05_CLAUSES + tc.C03_CLAUSES


def frames(path):
    return tlc_must("HMutationTrace", cfg(init="Init", next_="Next", constraints=["Report"]), env={"TRACE_FILE": path}, workers=1,
                    name="frame", timeout=3400, mem="4g")


def collect(tier, seed, replay, kind, nq, nt, tag):
    if replay:
        cs = read_json(os.path.join(replay, "case.json"))["case"]
        lang, swbits, sd = cs["id"].split("/")[:3]
        jobs = [] if swbits == "mini" else [(lang, dict(zip(("disUse", "disContra", "noBounds", "noParamFn"), [b == "1" for b in swbits])), [int(sd)])]
    else:
        jobs = tc.jobs_for(tier, seed, nq, nt)
    d = subdir(tag)

    def ex(i):
        lang, sw, seeds = jobs[i]
        return json.loads(run_driver("mut_exec.py", [lang, json.dumps(sw), json.dumps(seeds), kind, os.path.join(d, "m%d" % i)], timeout=3400))
    # the mini-program family (HMiniProg): every member through the real mutation, the overwriting under every outcome of its choices
    mini = []
    if replay:
        if "/mini/" in cs["id"]:
            mini, jobs = [(cs["id"].split("/")[0], int(cs["id"].split("/")[2]))], []
    else:
        mini = [(lg, None) for lg in (("kotlin", "java") if tier == "quick" else ("kotlin", "java", "groovy", "scala"))]
    mjobs = []
    if mini:
        g = tlc_must("HMiniProg", cfg(init="Init", next_="Next", constraints=["Emit"]), workers=1, name="gen_mini")
        members = sorted({json.dumps(j, sort_keys=True) for j in g.json})
        members = [[i, json.loads(m)] for i, m in enumerate(members)]
        for lg, only in mini:
            ms = [x for x in members if only is None or x[0] == only]
            for k, part in enumerate(chunks(ms, max(1, (len(ms) + 3) // 4))):
                mjobs.append((lg, write_json(os.path.join(d, "members_%s_%d.json" % (lg, k)), part), k))

    def exm(i):
        lg, mf, k = mjobs[i]
        return json.loads(run_driver("mini_exec.py", [lg, mf, kind, os.path.join(d, "mini_%s_%d" % (lg, k)), 1 if tier == "quick" else 3], timeout=3400))
    pairs = parallel(lambda t: (ex if t[0] == "p" else exm)(t[1]), [("p", i) for i in range(len(jobs))] + [("m", i) for i in range(len(mjobs))])
    cfiles, pfiles = [p[0] for p in pairs], [p[1] for p in pairs]
    fvals = parallel(frames, cfiles)
    wvals = parallel(tc.walk, pfiles)
    cases, verdicts, walks = {}, {}, {}
    for f, v in zip(cfiles, fvals):
        for c in read_json(f)["cases"]:
            cases[c["id"]] = c
        for j in v.json:
            verdicts[j["case"]] = j
    progs = {}
    for f, v in zip(pfiles, wvals):
        for p in read_json(f)["progs"]:
            progs[p["id"]] = p
        for j in v.json:
            walks[j["prog"]] = j
    # a member of the mini family that the reference checker does not accept as it stands is not an input of the property
    for cid in [c for c in cases if "/mini/" in c]:
        b = walks.get(cid + "/before")
        if b is None or b["viol"]:
            del cases[cid]
    return cases, verdicts, progs, walks, fvals + wvals


def new_violations(walks, cid, families):
    """violations of the after-program that the before-program does not have (same clause and detail)"""
    b, a = walks.get(cid + "/before"), walks.get(cid + "/after")
    if a is None or b is None:
        raise MachineryError("no walk verdict for " + cid)
    seen = {(x[2], x[3]) for x in b["viol"]}
    return [x for x in a["viol"] if tc.family(x[2]) in families and (x[2], x[3]) not in seen]


def run(tier, seed, selftest=False, replay=None):
    t0 = time.time()
    cases, verdicts, progs, walks, vals = collect(tier, seed, replay, KIND, 8, 250, "c03")
    if selftest:
        return selftest_run(cases)
    verdict = Verdict(PID)
    nsites = 0
    sample = None
    for cid, c in sorted(cases.items()):
        j = verdicts.get(cid)
        if j is None:
            raise MachineryError("no frame verdict for " + cid)
        nsites += len(j["sites"])
        if sample is None and j["sites"]:
            sample = (c, j)
        for cl, pos in j["bad"]:
            verdict.add(cl, {"id": cid, "event": pos, "before": c["before"]["ev"][pos - 1] if pos else None, "after": c["after"]["ev"][pos - 1] if pos else None},
                        "%s at event %s of %s: %s -> %s" % (cl, pos, cid, json.dumps(c["before"]["ev"][pos - 1])[:150] if pos else "", json.dumps(c["after"]["ev"][pos - 1])[:150] if pos else ""))
        for x in new_violations(walks, cid, WELLTYPED):
            verdict.add("StillWellTyped." + x[2], {"id": cid, "event": x[1], "clause": x[2], "detail": x[3], "S": x[4], "T": x[5],
                                                  "walk_around": progs[cid + "/after"]["ev"][max(0, x[1] - 4):x[1] + 1]},
                        "after erasure %s: %s at event %d: %s [%s vs %s]" % (cid, x[2], x[1], x[3], tc.show_t(x[4]), tc.show_t(x[5])))
    rc = verdict.finish()
    write_evidence(PID, tier, seed, "exploration", {
        "evaluations": sum(len(c["after"]["ev"]) for c in cases.values()), "distinct_nontrivial": len(cases),
        "rule": "real TypeErasure on real programs (first and second application; 4 languages; default and sampled switches) and on every member of the mini-program family HMiniProg (TLC-enumerated well-typed programs around one generic class); TLC checks (a) the frame: "
                "before/after walks identical except removed variable types, return types and inferable flags (HMutation.EraseFrameBad), and (b) "
                "the erased program with HTyping in inference mode: no violation that the program did not have before. evaluations = walk events of "
                "erased programs, distinct = mutation steps; annotation sites erased in this run: %d" % nsites,
        "samples": [{"step": sample[0]["id"], "erased_event_positions": sample[1]["sites"][:10],
                     "first_erased_event": sample[0]["after"]["ev"][sample[1]["sites"][0] - 1]}] if sample else [{"note": "no annotation erased in this run"}],
        "steps": len(cases), "sites_erased": nsites, "states": sum(v.distinct for v in vals),
        "checker_cmd": "mut_exec.py erase ; tlc HMutationTrace ; tlc HTyping",
    }, time.time() - t0, len(verdict.violations),
        ["inference rules for Kotlin / Scala cannot be calibrated against the compilers (not installed)",
         "an omitted return type is read as the recorded inferred type, checked against the body"])
    return rc


def selftest_run(cases):
    import copy
    c = copy.deepcopy(next(x for x in cases.values() if x["transformed"]))
    k = next(i for i, e in enumerate(c["after"]["ev"]) if e["ev"] == "Var")
    c["after"]["ev"][k]["name"] = c["after"]["ev"][k]["name"] + "X"       # a non-annotation field changed by the "mutation"
    c["id"] = "tampered"
    p = write_json(os.path.join(subdir("c03st"), "t.json"), {"cases": [c]})
    bad = {b[0] for j in frames(p).json for b in j["bad"]}
    ok = "Frame.OtherFieldChanged" in bad
    print("selftest C03: renamed a variable reference in the after-program -> %s" % ("Frame.OtherFieldChanged flagged" if ok else "NOT flagged"))
    return 0 if ok else 2
