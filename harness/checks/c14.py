"""C14 - compiler diagnostics are attributed to the right programs (spec: HCompilerOut / ...Gen / ...Trace)."""
import json
import os
import time
from core import *

PID = "C14"
CONSTS = {"NFiles": 3, "Msgs": "{1, 2, 3, 4, 5, 6}", "Filtered": "{3, 6}"}


def gen(maxlen, simulate=None, seed=0):
    c = dict(CONSTS, MaxLen=maxlen)
    if simulate:
        return tlc_must("HCompilerOutGen", cfg(init="GInit", next_="GNextSim", constants=c), workers=1, simulate="num=%d" % simulate,
                        depth=maxlen + 2, seed=seed, name="gen_co_sim", timeout=1800)
    return tlc_must("HCompilerOutGen", cfg(init="GInit", next_="GNext", invariants=["NeutralInv"], constants=c), workers=1,
                    name="gen_co%d" % maxlen, timeout=1800)


def validate(path):
    return tlc_must("HCompilerOutTrace", cfg(init="Init", next_="Next", constraints=["Report"], constants=CONSTS),
                    env={"TRACE_FILE": path}, workers=1, name="val", timeout=3000, mem="3g")


def run(tier, seed, selftest=False, replay=None):
    t0 = time.time()
    T = lambda what: os.environ.get("VERIF_VERBOSE") and print("[c14] %s at %.1fs" % (what, time.time() - t0), flush=True)
    gens = []
    if replay:
        streams = [read_json(os.path.join(replay, "case.json"))["case"]["cs"]]
    else:
        if tier == "quick":
            jobs = [lambda: gen(3), lambda: gen(8, 1500, seed), lambda: gen(14, 500, seed + 1)]
        else:
            jobs = [lambda: gen(4), lambda: gen(8, 20000, seed), lambda: gen(14, 10000, seed + 1), lambda: gen(20, 3000, seed + 2)]
        gens = parallel(lambda f: f(), jobs)
        seen, streams = set(), []
        for g in gens:
            for cs in g.json:
                k = json.dumps(cs, sort_keys=True)
                if k not in seen:
                    seen.add(k)
                    streams.append(cs)
    T("generated %d streams" % len(streams))
    d = subdir("c14")
    parts = chunks(streams, max(1, (len(streams) + NCPU - 1) // NCPU))

    def ex(i):
        p = write_json(os.path.join(d, "s%d.json" % i), parts[i])
        return json.loads(run_driver("comp_exec.py", [p, os.path.join(d, "trace%d" % i), 6000, CONSTS["NFiles"]]))
    files = [f for fl in parallel(ex, range(len(parts))) for f in fl]
    real = []
    if tier != "quick" and not replay and not selftest:
        real = json.loads(run_driver("javac_exec.py", [os.path.join(d, "javac"), seed, 40], timeout=3000))
        files += real
    T("executed")
    if selftest:
        return selftest_run(files[0])
    vals = parallel(validate, files)
    T("validated")
    verdict = Verdict(PID)
    nruns = 0
    sample = None
    for f, v in zip(files, vals):
        runs = read_json(f)["runs"]
        nruns += len(runs)
        if v.distinct != len(runs):
            raise MachineryError("validated %d of %d runs in %s" % (v.distinct, len(runs), f))
        sample = sample or runs[len(runs) // 2]
        tr = {r["id"]: r for r in runs} if v.json else {}
        for j in v.json:
            r = tr[j["run"]]
            for cl, shape in j["bad"]:
                verdict.add("%s.%s/%s" % (r["compiler"], cl, shape), {"cs": r["cs"], "compiler": r["compiler"], "returned": {k: r[k] for k in ("crash", "failed", "exc")},
                                                                   "text": r.get("text")},
                            "%s analysis of stream %s returned crash=%s failed=%s" % (r["compiler"], [(c["k"], c["f"], c["m"]) for c in r["cs"]], r["crash"], r["failed"]))
    rc = verdict.finish()
    write_evidence(PID, tier, seed, "model_checking", {
        "states": sum(g.distinct for g in gens) + sum(v.distinct for v in vals), "transitions": sum(g.generated for g in gens) + sum(v.generated for v in vals),
        "traces_validated_against_impl": nruns,
        "samples": [{"compiler": sample["compiler"], "chunks": sample["cs"], "returned": {"crash": sample["crash"], "failed": sample["failed"]}}],
        "evaluations": nruns, "distinct_nontrivial": len(streams),
        "rule": "TLC enumerates every chunk stream (error with 6 message kinds incl. multi-line details, two messages matched by two different user filter patterns and a "
                "message mentioning java.lang; warning; note; summary; internal stack trace) over 3 files up to length %d, and random streams "
                "up to length 14-20; each is rendered in the javac/kotlinc/groovyc/scalac formats and analysed by the real code; "
                "evaluations = analyses validated by TLC against the ground truth (files, per-file message order, crash classification); "
                "thorough adds real javac runs on batches with known broken files" % (3 if tier == "quick" else 4),
        "real_javac_runs": sum(len(read_json(f)["runs"]) for f in real),
        "exhaustive": False,
    }, time.time() - t0, len(verdict.violations),
        ["the concrete output formats of kotlinc, groovyc and scalac are taken from their documented shape (compilers not installed); javac's is "
         "cross-checked against real javac 17 runs in the thorough tier", "the user-supplied filter pattern matches a whole diagnostic of the known-issue message"])
    return rc


def selftest_run(path):
    data = read_json(path)
    base = {j["run"] for j in validate(path).json}
    r = next(x for x in data["runs"] if x["failed"] and not x["crash"])
    r["failed"][0][0] = (r["failed"][0][0] % 3) + 1         # move the error to another file
    p2 = write_json(path + ".corrupt.json", data)
    flagged = {j["run"] for j in validate(p2).json} - base
    ok = r["id"] in flagged
    print("selftest C14: moved a recorded error to another file in run %s -> %s" % (r["id"], "flagged OK" if ok else "NOT flagged"))
    return 0 if ok else 2
