"""Shared by C01 / C05 (and C03 / C04): run the typing walk of HTyping over serialised programs."""
import itertools
import json
import os
import random
from core import *

LANGS = ["kotlin", "java", "groovy", "scala"]
C01_CLAUSES = ("InitAssignable", "ArgAssignable", "ResultAssignable", "AssignAssignable", "TypeArgWithinBound", "AbstractImplemented",
               "AbstractInRegular", "OverrideCompatible", "NoFinalSuper", "BranchBelowCond", "OperandsComparable", "OperandsBoolean")
C05_CLAUSES = ("Resolved", "ArityAdmitted", "AssignTargetNonFinal", "InstantiatedConcrete", "TypeVarsInScope", "FreshInScope", "NotReserved",
               "CaptureFinal", "UnknownEvent", "WalkBalanced")
C03_CLAUSES = ("TypeArgsNotInferable", "VarTypeNotInferable", "ReturnNotInferable")


def family(clause):
    return clause.split("/")[0].split(".")[0]


def walk(path):
    r = tlc("HTyping", cfg(spec="Spec", constraints=["Done"]), env={"TRACE_FILE": path}, workers=1, name="typing", timeout=3400, mem="4g")
    if not r.ok:
        raise MachineryError("TLC failed on HTyping for %s:\n%s" % (path, "\n".join(r.out.splitlines()[-25:])))
    return r


def jobs_for(tier, seed, per_quick, per_thorough):
    """(language, switches, seeds) jobs: every language with default switches and with sampled switch settings."""
    rnd = random.Random(seed)
    sws = list(itertools.product([False, True], repeat=4))
    jobs = []
    nproc = 4
    n = per_quick if tier == "quick" else per_thorough
    for li, lang in enumerate(LANGS):
        for rep in range(nproc):
            bits = sws[rnd.randrange(16)] if rep else (False, False, False, False)
            sw = dict(zip(("disUse", "disContra", "noBounds", "noParamFn"), bits))
            jobs.append((lang, sw, [seed * 100000 + 5000 * li + 1000 * rep + k for k in range(n)]))
    return jobs


def generate_and_walk(jobs, stages, tag):
    d = subdir(tag)

    def ex(i):
        lang, sw, seeds = jobs[i]
        return json.loads(run_driver("prog_exec.py", [lang, json.dumps(sw), json.dumps(seeds), stages, os.path.join(d, "progs%d.json" % i)], timeout=3400))
    files = [f for fl in parallel(ex, range(len(jobs))) for f in fl]
    vals = parallel(walk, files)
    results = []      # (program record, verdict json)
    for f, v in zip(files, vals):
        progs = read_json(f)["progs"]
        byid = {p["id"]: p for p in progs}
        got = {j["prog"]: j for j in v.json}
        for p in progs:
            if p.get("skip"):
                continue
            if p["id"] not in got:
                raise MachineryError("no verdict for program %s" % p["id"])
            results.append((p, got[p["id"]]))
    return files, vals, results


def show_t(t):
    if not isinstance(t, dict):
        return str(t)
    if t["k"] == "W":
        return "*" if t["n"] == "star" else "%s %s" % (t["n"], show_t(t["a"][0]))
    if t["k"] == "V":
        return t["n"]
    if t["k"] == "U":
        return "cond(%s | %s)" % (show_t(t["a"][0]), show_t(t["a"][1]))
    if t["k"] == "Q":
        return "%s<>(%s)" % (t["n"], ", ".join(show_t(a) for a in t["a"]))
    return t["n"] + ("<" + ", ".join(show_t(a) for a in t["a"]) + ">" if t["a"] else "")


def add_violations(verdict, results, families, extra_key=lambda p, x: ""):
    n = 0
    for p, j in results:
        if not j["stackok"] and "WalkBalanced" in families:
            verdict.add("WalkBalanced", {"id": p["id"]}, "the walk of %s did not end with empty stacks" % p["id"])
        for x in j["viol"]:
            _, ev, clause, detail, S, T = x
            if family(clause) not in families:
                continue
            n += 1
            verdict.add(clause + extra_key(p, x), {"id": p["id"], "event": ev, "clause": clause, "detail": detail, "S": S, "T": T,
                                                   "walk_around": p["ev"][max(0, ev - 4):ev + 1]},
                        "%s at event %d of %s: %s  [%s  vs  %s]" % (clause, ev, p["id"], detail, show_t(S), show_t(T)))
    return n
