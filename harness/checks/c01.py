"""C01 - generated programs are well-typed (spec: HTyping, declared mode)."""
import os
import time
from core import *
import typing_common as tc

PID = "C01"
FAMILIES = tc.C01_CLAUSES


def run(tier, seed, selftest=False, replay=None, pid=PID, families=FAMILIES):
    t0 = time.time()
    if replay:
        cs = read_json(os.path.join(replay, "case.json"))["case"]
        lang, swbits, sd, _ = cs["id"].split("/")
        jobs = [(lang, dict(zip(("disUse", "disContra", "noBounds", "noParamFn"), [b == "1" for b in swbits])), [int(sd)])]
    else:
        jobs = tc.jobs_for(tier, seed, 12, 75)
    files, vals, results = tc.generate_and_walk(jobs, "generated", pid.lower())
    if selftest:
        return selftest_run(files[0], pid)
    verdict = Verdict(pid)
    tc.add_violations(verdict, results, families)
    scenes = (0, 0, None)
    if not replay:
        import ev_common
        scenes = ev_common.run_scenes(pid, tier, verdict)
    rc = verdict.finish()
    info = sum(1 for p, j in results for x in j["viol"] if x[2].startswith("INFO."))
    events = sum(len(p["ev"]) for p, j in results)
    sample = results[0][0]
    write_evidence(pid, tier, seed, "exploration", {
        "evaluations": events, "distinct_nontrivial": len(results),
        "rule": "programs from the real generator (4 languages; default switches and sampled switch settings; %d seeds per (language, setting)) are "
                "serialised structurally and walked by the HTyping stack machine in TLC, one state per AST event; every typed position / name-use "
                "site is judged against the declarative relation; evaluations = walk events, distinct_nontrivial = programs" % (12 if tier == "quick" else 75),
        "samples": [{"program": sample["id"], "first_events": sample["ev"][:6], "classes": [k for k, v in sample["ct"].items() if v["kind"] != "builtin"][:6]}],
        "programs": len(results), "clauses_judged": list(families),
        "generator_scenes": {"scenes_executed": scenes[0], "events_judged": scenes[1], "sample": scenes[2],
                             "rule": "TLC-enumerated symbol-table contents and requests (HGenScene) executed by a real Generator over a real Context; "
                                     "the helper calls issued and the results are validated by HEvTrace (model_checking within that family)"}, "informational": {"CondTypeNotUpperBound": info},
        "states": sum(v.distinct for v in vals), "checker_cmd": "prog_exec.py ; tlc HTyping (SPECIFICATION Spec, CONSTRAINT Done)",
    }, time.time() - t0, len(verdict.violations),
        ["exploration over seeds; each program is checked at every position", "the reference semantics is one language-parametric relation; it cannot "
         "be calibrated against kotlinc / groovyc / scalac (not installed)"])
    return rc


def selftest_run(path, pid):
    """Binding demonstration: break a real walk in two ways and require the matching clauses."""
    data = read_json(path)
    p = next(x for x in data["progs"] if not x.get("skip") and any(e["ev"] == "VarDecl" and e["vt"] for e in x["ev"]))
    good = {j["prog"]: j for j in tc.walk(path).json}[p["id"]]
    import copy
    a, b = copy.deepcopy(p), copy.deepcopy(p)
    # (1) C01: give a typed variable declaration an unrelated declared type
    k = next(i for i, e in enumerate(a["ev"]) if e["ev"] == "VarDecl" and e["vt"] and a["ev"][i - 1]["ev"] in ("Const", "New"))
    a["ev"][k]["vt"] = [{"k": "C", "n": "NoSuchClassXYZ", "a": []}]
    a["id"] += "#badtype"
    # (2) C05: remove a local variable declaration that is used later
    k2 = next(i for i, e in enumerate(b["ev"]) if e["ev"] == "VarDecl" and any(x["ev"] == "Var" and x["name"] == e["name"] for x in b["ev"][i + 1:]))
    b["ev"][k2] = {"ev": "Drop"}
    b["id"] += "#novar"
    p2 = write_json(path + ".corrupt.json", {"progs": [a, b]})
    got = {j["prog"]: {x[2] for x in j["viol"]} for j in tc.walk(p2).json}
    ok1 = any(c.startswith("InitAssignable") for c in got[a["id"]]) and not any(x[2].startswith("InitAssignable") for x in good["viol"])
    ok2 = any(c.startswith("Resolved") for c in got[b["id"]])
    print("selftest %s: unrelated declared type -> %s; dropped declaration -> %s" % (pid, "InitAssignable flagged" if ok1 else "NOT flagged",
                                                                                    "Resolved flagged" if ok2 else "NOT flagged"))
    return 0 if ok1 and ok2 else 2
