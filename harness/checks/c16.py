"""C16 - the symbol table behaves like a scoped map (spec: HContext / HContextGen / HContextTrace)."""
import json
import os
import time
from core import *

PID = "C16"

# alphabets: exhaustive exploration of the model's *state graph* (VIEW hides the history), every transition emitted
ALPHABETS = {
    "shadow": dict(NSs="NS_Shadow", Names='{"a", "b"}', GenKinds='{"vars"}', Vers="{1, 2}"),
    "kinds": dict(NSs="NS_Flat", Names='{"a"}', GenKinds='{"types", "funcs", "lambdas", "vars", "classes"}', Vers="{1, 2}"),
    "tree": dict(NSs="NS_Tree", Names='{"f", "C", "m"}', GenKinds='{"funcs", "classes"}', Vers="{1}"),
    "mixed": dict(NSs="NS_Tree", Names='{"f", "m"}', GenKinds='{"funcs", "vars", "types"}', Vers="{1}"),
}
FULL = dict(NSs="NS_All", Names='{"f", "C", "m", "a"}', GenKinds='{"types", "funcs", "lambdas", "vars", "classes"}', Vers="{1, 2}")


def gen(name, maxlen):
    c = dict(ALPHABETS[name])
    ns = c.pop("NSs")
    c["MaxLen"] = maxlen
    c["Values"] = "{}"
    text = cfg(init="GInit", next_="GNext", invariants=["MirrorInv", "RevInv", "EnclosingInv", "LookupInv", "NoDupNames", "ComposeOK"],
               constraints=["Bound"], view="GView", constants=c)
    text = text.replace("CONSTANTS\n", "CONSTANTS\n  NSs <- %s\n" % ns) + "ACTION_CONSTRAINT EmitStep\n"
    r = tlc_must("HContextGen", text, workers=1, name="gen_" + name, timeout=1500)
    r.alphabet = name
    return r


def gen_sim(num, depth, seed):
    c = dict(FULL)
    ns = c.pop("NSs")
    c["MaxLen"] = depth
    c["Values"] = "{}"
    text = cfg(init="GInit", next_="GNext", invariants=["RevInv", "EnclosingInv", "LookupInv", "NoDupNames"], constants=c)
    text = text.replace("CONSTANTS\n", "CONSTANTS\n  NSs <- %s\n" % ns) + "ACTION_CONSTRAINT EmitLast\n"
    r = tlc_must("HContextGen", text, workers=1, simulate="num=%d" % num, depth=depth, seed=seed, name="gen_sim", timeout=1500)
    r.alphabet = "sim"
    return r


def validate(path):
    return tlc_must("HContextTrace", cfg(init="TInit", next_="TNext", constraints=["Report"], constants={"Values": "{}"})
                    .replace("CONSTANTS\n", "CONSTANTS\n  NSs <- NS_All\n"),
                    env={"TRACE_FILE": path}, workers=1, name="val", timeout=3000, mem="3g")


LANGS4 = ["kotlin", "java", "groovy", "scala"]


def run_ev(d, jobs, verdict):
    """EV: Context._add_entity/_remove_entity recorded while real programs are generated, replayed through HContext"""
    ev_stats = {"programs": 0, "steps": 0}
    evfiles = [f for fl in parallel(lambda i: json.loads(run_driver("ev_ctx.py", [jobs[i][0], json.dumps(jobs[i][1]), os.path.join(d, "evctx%d.json" % i)],
                                                                    timeout=3000)), range(len(jobs))) for f in fl]
    evvals = parallel(lambda f: tlc_must("HContextEvTrace", cfg(init="TInit", next_="TNext", constraints=["AtEnd"], constants={"Values": "{}"})
                                         .replace("CONSTANTS\n", "CONSTANTS\n  NSs <- TraceNSs\n"),
                                         env={"TRACE_FILE": f}, workers=1, name="evctx", timeout=3000, mem="4g"), evfiles)
    for f, v in zip(evfiles, evvals):
        cs = {c["id"]: c for c in read_json(f)["cases"]}
        got = {j["case"]: j for j in v.json}
        for cid, c in cs.items():
            ev_stats["programs"] += 1
            ev_stats["steps"] += len(c["ops"])
            j = got.get(cid)
            if j is None or j["steps"] != len(c["ops"]):
                raise MachineryError("EV C16: history of %s not consumed" % cid)
            for cl, a, b in j["bad"]:
                verdict.add("EV:" + cl, {"id": cid, "where": [a, b]}, "after the generator's own %d symbol-table steps for %s: %s at %s %s" % (len(c["ops"]), cid, cl, a, b))
    return ev_stats


def run(tier, seed, selftest=False, replay=None):
    t0 = time.time()
    if replay and str(read_json(os.path.join(replay, "case.json")).get("key", "")).startswith("EV:"):
        cid = read_json(os.path.join(replay, "case.json"))["case"]["id"]
        verdict = Verdict(PID)
        run_ev(subdir("c16"), [(cid.split("/")[0], [int(cid.split("/")[1])])], verdict)
        return verdict.finish()
    T = lambda what: os.environ.get("VERIF_VERBOSE") and print("[c16] %s at %.1fs" % (what, time.time() - t0), flush=True)
    gens = []
    if replay:
        cs = read_json(os.path.join(replay, "case.json"))["case"]
        hists = [{"id": cs["id"], "hist": [dict(o, ver=int(o["v"].rsplit("|", 1)[1]) if o["v"] else 0) for o in cs["ops"]], "every": True}]
    else:
        if tier == "quick":
            plan = [("shadow", 4), ("kinds", 3), ("tree", 4), ("mixed", 3)]
            sims = [(200, 12, seed)]
        else:
            plan = [("shadow", 5), ("kinds", 4), ("tree", 5), ("mixed", 4)]
            sims = [(500, 14, seed + i) for i in range(4)]
        jobs = [(lambda n=n, L=L: gen(n, L)) for n, L in plan] + [(lambda a=a: gen_sim(*a)) for a in sims]
        gens = parallel(lambda f: f(), jobs)
        hists, seen = [], set()
        for g in gens:
            for h in g.json:
                key = json.dumps(h, sort_keys=True)
                if key in seen or not h:
                    continue
                seen.add(key)
                hists.append({"id": "%s/%d" % (g.alphabet, len(hists)), "hist": h, "every": g.alphabet == "sim"})
    T("generated %d histories (model states %s)" % (len(hists), [(g.alphabet, g.distinct, len(g.json), round(g.wall)) for g in gens]))
    d = subdir("c16")
    parts = chunks(hists, max(1, (len(hists) + NCPU - 1) // NCPU))

    def ex(i):
        p = write_json(os.path.join(d, "h%d.json" % i), parts[i])
        return json.loads(run_driver("ctx_exec.py", [p, os.path.join(d, "trace%d" % i), 400]))
    files = [f for fl in parallel(ex, range(len(parts))) for f in fl]
    T("executed, %d trace files" % len(files))
    if selftest:
        return selftest_run(files[0])
    vals = parallel(validate, files)
    T("validated")
    verdict = Verdict(PID)
    steps = 0
    for f, v in zip(files, vals):
        cases = read_json(f)["cases"]
        expect = sum(len(c["ops"]) + 1 for c in cases)
        steps += sum(len(c["ops"]) for c in cases)
        if v.distinct != expect:
            raise MachineryError("trace validation consumed %d states, expected %d (%s)" % (v.distinct, expect, f))
        tr = {c["id"]: c for c in cases} if v.json else {}
        for j in v.json:
            for cl in j["bad"]:
                verdict.add(cl, tr[j["case"]], "query clause %s disagrees with HContext after step %d of history %s" % (cl, j["step"], j["case"]))
    ev_stats = run_ev(d, [(LANGS4[i % 4], [seed * 1000 + 10 * i + k for k in range(2 if tier == "quick" else 12)]) for i in range(8)], verdict) if not replay else {}
    T("EV validated")
    rc = verdict.finish()
    sample = read_json(files[0])["cases"][-1]
    write_evidence(PID, tier, seed, "model_checking", {
        "states": sum(g.distinct for g in gens) + sum(v.distinct for v in vals),
        "transitions": sum(g.generated for g in gens) + sum(v.generated for v in vals),
        "traces_validated_against_impl": len(hists),
        "samples": [{"history": sample["ops"], "recorded_after_last_step": {k: sample["obs"][-1][k][:3] for k in sample["obs"][-1]}}],
        "evaluations": steps, "distinct_nontrivial": len(hists),
        "rule": "TLC explores the state graph of HContext over four small alphabets (VIEW hides the history; every transition out of every "
                "distinct table state is emitted once as the shortest history reaching it plus the operation) and random long histories over "
                "the full alphabet (6 namespaces, 5 kinds, 4 names, 2 versions; -simulate). Each history is replayed on a real Context with real "
                "ast declarations; get_decl (all limits), Context.get_decl, get_*(current/enclosing/glob) for the six tables, find_namespaces, "
                "get_namespaces_decls and get_namespace are recorded and compared by TLC with the model. distinct = distinct histories.",
        "model_states_per_alphabet": {g.alphabet: g.distinct for g in gens},
        "design_invariants": ["MirrorInv", "RevInv", "EnclosingInv", "LookupInv", "NoDupNames", "ComposeOK"],
        "ev_generator_histories": dict(ev_stats, note="Context._add_entity/_remove_entity recorded while real programs are generated, replayed by "
                                       "TLC through HContext (one state per primitive step); the real final context and reverse lookups compared"),
        "exhaustive": False,
    }, time.time() - t0, len(verdict.violations),
        ["a name is not used for two different mirrored kinds (function, variable, class) in one namespace (identifiers of a scope are unique)",
         "which same-named entry wins in a global query, and the order of a global query's result, are not constrained",
         "declaration values are distinct objects (type parameters have distinct names)"])
    return rc


def selftest_run(path):
    data = read_json(path)
    base = {(j["case"], j["step"]) for j in validate(path).json}
    cs = data["cases"][len(data["cases"]) // 2]
    ob = cs["obs"][-1]
    tgt = next(x for x in ob["enc"] if x[2])
    tgt[2] = tgt[2][::-1] if len(tgt[2]) > 1 else []
    p2 = write_json(path + ".corrupt.json", data)
    flagged = {(j["case"], j["step"]) for j in validate(p2).json} - base
    ok = flagged == {(cs["id"], len(cs["ops"]))}
    print("selftest C16: corrupted an enclosing-scope answer of %s -> flagged=%s -> %s" % (cs["id"], sorted(flagged), "OK" if ok else "FAILED"))
    return 0 if ok else 2
