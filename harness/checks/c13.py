"""C13 - saved programs replay faithfully (spec: HReplay / HReplayTrace)."""
import json
import os
import time
from core import *

PID = "C13"
LANGS = ["kotlin", "java", "groovy", "scala"]


def gen(maxops, simulate=None, seed=0):
    if simulate:
        return tlc_must("HReplay", cfg(init="Init", next_="NextSim", constants={"MaxOps": maxops}), workers=1, simulate="num=%d" % simulate,
                        depth=maxops + 2, seed=seed, name="gen_rp_sim", timeout=1200)
    return tlc_must("HReplay", cfg(init="Init", next_="Next", constants={"MaxOps": maxops}), workers=1, name="gen_rp", timeout=1200)


def validate(path):
    return tlc_must("HReplayTrace", cfg(init="TInit", next_="TNext", constraints=["Report"], constants={"MaxOps": 99}),
                    env={"TRACE_FILE": path}, workers=1, name="val", timeout=3000)


def run(tier, seed, selftest=False, replay=None):
    t0 = time.time()
    T = lambda what: os.environ.get("VERIF_VERBOSE") and print("[c13] %s at %.1fs" % (what, time.time() - t0), flush=True)
    gens = []
    if replay:
        cs = read_json(os.path.join(replay, "case.json"))["case"]
        plans = [{"stage": cs["stage"], "ops": [s["op"] for s in cs["steps"]]}]
        jobs = [(cs["id"].split("/")[0], [int(cs["id"].split("/")[1])])]
    else:
        if tier == "quick":
            gens = [gen(2), gen(4, 40, seed)]
            per_lang = 4
        else:
            gens = [gen(3), gen(5, 300, seed)]
            per_lang = 16
        seen, plans = set(), []
        for g in gens:
            for j in g.json:
                k = json.dumps(j, sort_keys=True)
                if k not in seen:
                    seen.add(k)
                    plans.append(j)
        jobs = [(lang, [seed * 1000 + 10 * i + LANGS.index(lang)]) for lang in LANGS for i in range(per_lang)]
    T("generated %d plans, %d jobs" % (len(plans), len(jobs)))
    d = subdir("c13")
    # each job: one base seed, a slice of the plans (every plan is run for several seeds overall)
    pf = []
    for i in range(len(jobs)):
        mine = plans if replay else plans[i % 4::4]
        pf.append(write_json(os.path.join(d, "plans%d.json" % i), mine))

    def ex(i):
        lang, seeds = jobs[i]
        return json.loads(run_driver("replay_exec.py", [lang, json.dumps(seeds), pf[i], os.path.join(d, "trace%d.json" % i)], timeout=3000))
    files = [f for fl in parallel(ex, range(len(jobs))) for f in fl]
    T("executed")
    if selftest:
        return selftest_run(files[0])
    vals = parallel(validate, files)
    T("validated")
    verdict = Verdict(PID)
    steps = ncases = 0
    sample = None
    for f, v in zip(files, vals):
        cases = read_json(f)["cases"]
        ncases += len(cases)
        steps += sum(len(c["steps"]) for c in cases)
        if v.distinct != sum(len(c["steps"]) + 1 for c in cases):
            raise MachineryError("trace validation consumed %d states, expected %d" % (v.distinct, sum(len(c["steps"]) + 1 for c in cases)))
        sample = sample or cases[len(cases) // 2]
        tr = {c["id"]: c for c in cases} if v.json else {}
        for j in v.json:
            c = tr[j["case"]]
            verdict.add(j["bad"], c, "clause %s at step %d of %s (saved at stage %s, ops %s)" % (
                j["bad"], j["step"], c["id"], c["stage"], [s["op"] for s in c["steps"]]))
    # the driver's own saving (hephaestus.save_program, --keep-all, stored test cases): every saved source / .bin pair of one driver iteration
    # against the model of HPipeline, incl. steps that change the program but not its text; a differing file set is a C13 violation
    pl = None
    if not replay:
        import c15
        pl = c15.pipeline_table(subdir("c13pl"))
        for sc, diff in pl.pop("mism"):
            if "Files" in diff:
                verdict.add("SavedBinIsProgram", {"id": "pipeline/" + json.dumps(sc, sort_keys=True), "scenario": sc, "diff": diff},
                            "driver iteration %s: the saved sources / pickled programs differ from the model (a .bin next to a source must hold the program "
                            "the source was printed from)" % json.dumps(sc, sort_keys=True))
    rc = verdict.finish()
    write_evidence(PID, tier, seed, "model_checking", {
        "driver_saving": pl,
        "states": sum(g.distinct for g in gens) + sum(v.distinct for v in vals), "transitions": sum(g.generated for g in gens) + sum(v.generated for v in vals),
        "traces_validated_against_impl": ncases,
        "samples": [sample],
        "evaluations": steps, "distinct_nontrivial": len(plans),
        "rule": "TLC enumerates the save point (generated / after 1st erasure / after 2nd erasure / after overwriting) x every sequence of <= %d "
                "operations (translate to own language, translate to another language, erase, overwrite - in place on the loaded copy -, dump-and-load again, load the saved file again) and random longer "
                "ones; each plan is executed on real programs of all four languages: dump_program / load_program, then every operation on the "
                "original and on the loaded copy with the same random seed; TLC checks observational equality per operation. "
                "evaluations = operations compared; distinct = distinct plans" % (2 if tier == "quick" else 3),
        "exhaustive": False,
    }, time.time() - t0, len(verdict.violations),
        ["observations are the translated text and the mutation's report (is_transformed / error_injected)",
         "hook H1 keeps set iteration order independent of object addresses on both copies"])
    return rc


def selftest_run(path):
    data = read_json(path)
    c = data["cases"][0]
    c["steps"][-1]["loaded"] = "tampered"
    p2 = write_json(path + ".corrupt.json", data)
    flagged = {j["case"] for j in validate(p2).json}
    ok = c["id"] in flagged
    print("selftest C13: changed the observation of the loaded copy in %s -> %s" % (c["id"], "flagged OK" if ok else "NOT flagged"))
    return 0 if ok else 2
