#!/usr/bin/env python3
"""Regenerates /verif/MANIFEST.json from the table below (single source of truth for the interface)."""
import json
import os

HERE = os.path.dirname(os.path.dirname(os.path.abspath(__file__)))
ALL = ["C%02d" % i for i in range(1, 20)]

CHECKS = {
    "C19": dict(
        category="model_checking",
        technique="TLA+ definitions (HGraph) + TLC-enumerated digraphs replayed into graph_utils + TLC trace validation (HGraphTrace)",
        text="TLC enumerates every digraph with self-loops on <=3 (quick) / <=4 (thorough) vertices plus random larger ones; the real "
             "graph_utils functions are executed on each from every vertex and every recorded result is compared by TLC with the "
             "textbook definitions written in HGraph.tla (closure, simple paths, maximal paths, sources). Exhaustive within the bound, "
             "which is the bound the property names.",
        design_ref="DESIGN.md §4 C19",
        note="Trusted: TLC, the JSON serialisation of results (sorted lists of ints). Graphs are simple digraphs whose vertices are all keys.",
    ),
    "C16": dict(
        category="model_checking",
        technique="TLA+ state machine of the symbol table (HContext); TLC state-graph exploration emits one history per model transition; "
                  "histories replayed on the real Context; TLC trace validation of every recorded query (HContextTrace)",
        text="TLC explores the model's state graph over small operation alphabets (every transition of every distinct table state) and random "
             "long histories over the full alphabet, checking the design invariants; each history is executed on a real Context with real AST "
             "declarations and TLC replays it as a behaviour of HContext, comparing get_decl / current / enclosing / global / reverse queries "
             "after the steps. History-quantified, which no unit test reaches.",
        design_ref="DESIGN.md §4 C16",
        note="Trusted: TLC, the dumb serialiser of query results. Assumes a name is not shared between function/variable/class in one namespace.",
    ),
    "C06": dict(
        category="model_checking",
        technique="declarative subtyping relation in TLA+ (HTypes: containment + capture approximation); TLC enumerates a family of class "
                  "tables with term universes; real is_subtype/is_assignable matrices validated pair by pair by TLC (HSubTrace)",
        text="Every well-formed table of the A/B/Cc/D family (all variance/bound/super-argument combinations) x universe of terms to nesting 2 x "
             "4 languages: the implementation's full subtype matrix is compared with the declarative relation - soundness everywhere, exactness, "
             "reflexivity, transitivity on the fragment, bottom below all; the spec's own relation is checked transitive on every table. "
             "The universe includes the built-in arrays and Kotlin's specialised arrays. Exhaustive within the family in the thorough tier; quick samples 96 table/language cases.",
        design_ref="DESIGN.md §4 C06",
        note="Trusted: TLC, term<->object conversion (round-trip checked). Known finding F11 (supertypes by textual substitution) is keyed by the "
             "spec predicate TextualDiffers; everything outside that shape is reported.",
    ),
    "C07": dict(
        category="model_checking",
        technique="TLA+ model of shared type objects under operation histories (HTypeHeap); TLC-enumerated histories executed on shared real "
                  "declarations; per-step trace validation of result, transitive supertypes and immutability frame (HTypeHeapTrace)",
        text="All length-2 (thorough: length-3) histories of new / self-type / re-instantiation through an earlier result's constructor / "
             "substitute / to_variance_free / to_type_variable_free / is_subtype over two three-level generic hierarchies, plus random longer "
             "ones; after each step TLC checks result = textual substitution, supertypes = declared supertypes substituted transitively, "
             "substitution laws, and that no definition, argument or earlier result changed.",
        design_ref="DESIGN.md §4 C07",
        note="Trusted: TLC, structural snapshot function. Supertypes compared for variable-free instantiations only.",
    ),
    "C09": dict(
        category="model_checking",
        technique="contracts of the searches as TLA+ predicates over the declarative relation (HTypeOps); TLC-generated tables and queries; "
                  "real find_subtypes / find_irrelevant_type executed under an exhaustive choice oracle; TLC validates every returned type",
        text="For tables of the HTypesGen family and query types from their universes, both searches are run over every outcome of their "
             "random choices (depth-first over the choice tree up to a leaf budget, sampled beyond) in all (include_self, concrete_only) "
             "settings; TLC judges every distinct returned type: usable, subtype of the query / unrelated to it, self included exactly on request.",
        design_ref="DESIGN.md §4 C09",
        note="Trusted: TLC, term conversion, the choice oracle. Known findings keyed by spec shape predicates (InOverProjection, "
             "DependentParam, TextualSupertypes); other shapes are reported.",
    ),
    "C10": dict(
        category="model_checking",
        technique="unifier contract in TLA+ (HUnify: substitute back, match up to open variables within bounds); TLC-generated tables, targets "
                  "and patterns; every non-empty result of the real unify_types validated by TLC",
        text="Every (target, pattern) pair of universe (nesting 2 in both tiers) x 33 patterns (repeated, bounded, projected, nested variables) x both modes per table; "
             "each non-empty assignment is substituted back by TLC and compared with the target or one of its supertypes, bounds checked.",
        design_ref="DESIGN.md §4 C10",
        note="Trusted: TLC, term conversion. One-directional (only non-empty results are constrained), as the property states.",
    ),
    "C08": dict(
        category="model_checking",
        technique="instantiation contract as TLA+ clauses (HTypeOps.InstBad: bounds via capture approximation, requested assignments, "
                  "projection permission from choices/variance/switches/bound mentions); TLC-enumerated declarations, requests, choice maps and "
                  "switch settings; real helpers run under an exhaustive choice oracle; every outcome validated by TLC",
        text="38 400 cases (declarations with 1-3 parameters incl. chains T3:T2:T1 and Foo<T1> bounds x variances x all partial "
             "pre-assignments from a 7-term pool x 5 variance-choice settings x 4 switch settings x class/function) in the thorough tier, 3 000 "
             "sampled in quick; each executed over every outcome of the helper's random choices up to a leaf budget. Also the caller's options "
             "(enable_pecs / disable_variance_functions / disable_variance: HTypeOps.EffChoices) on the built-in function types and ordinary classes; "
             "EV of the helper calls real generation issues (incl. direct calls of the common core); generator scenes (HGenScene): "
             "Generator._get_matching_class on TLC-enumerated symbol tables, every helper call and the resulting instantiation validated.",
        design_ref="DESIGN.md §4 C08",
        note="Trusted: TLC, term conversion, choice oracle. When a request targets a parameter tied to another by a bound, only the clauses that do "
             "not depend on the request are judged (the statement leaves the rewriting of the other assignments open).",
    ),
    "C14": dict(
        category="model_checking",
        technique="ground truth of diagnostic chunk streams in TLA+ (HCompilerOut); TLC enumerates all short streams and random long ones; "
                  "streams rendered in four compiler formats and analysed by the real code; TLC validates files, per-file messages, crash "
                  "classification; real javac 17 batches with errors known by construction in the thorough tier",
        text="All streams of <=3 (thorough: <=4) chunks over 3 files and 5 message kinds plus random streams up to length 20, x 4 compilers; "
             "attribution, message order per file, filter handling and crash classification compared with the spec's ground truth.",
        design_ref="DESIGN.md §4 C14",
        note="Trusted: TLC, the renderer (kotlinc/groovyc/scalac formats from documentation; javac cross-checked with the real compiler), "
             "token-based message identification.",
    ),
    "C15": dict(
        category="model_checking",
        technique="TLA+ state machine of the driver (HDriver: decision table, counters, files, sequential and worker-pool interleavings) "
                  "model-checked by TLC; TLC-generated whole-session scenarios run as real sessions; recorded events replayed as behaviours of "
                  "HDriver by TLC (trace validation with inferred update order)",
        text="Design: invariants Totals / NoLeftovers / SavedOnlyFaults and liveness over every outcome x verdict x crash combination and every "
             "interleaving of asynchronous checks. Code: exhaustive 1-2 program sessions plus random 4-7 program sessions, sequential and "
             "fork-pool mode, with the real gen_program / check_oracle / update_stats / save_stats / run / run_parallel; every event checked.",
        design_ref="DESIGN.md §4 C15",
        note="Trusted: TLC, the stand-in compiler (javac-format output, parsed by the real analysis), scripted ProgramProcessor. "
             "Event order in pool mode is the order of atomic appends to one log.",
    ),
    "C11": dict(
        category="model_checking",
        technique="TLA+ model of translator objects and observed texts (HTranslate); TLC-enumerated call histories executed with the real "
                  "translators on generated / erased / overwritten programs; trace validation of Functional and ProgramUnchanged per call",
        text="Every history of <=2 (thorough: <=3) calls over {reused, other-language, fresh translator} x {p, erased p, overwritten p, q} plus "
             "random longer histories, for base programs of all four languages; the same key must always give the same text and the program's "
             "pickle snapshot must not change.",
        design_ref="DESIGN.md §4 C11",
        note="Trusted: TLC, pickle as the snapshot function, sha1 digests. Programs are sampled by seed; histories are exhaustive to the stated length.",
    ),
    "C13": dict(
        category="model_checking",
        technique="TLA+ model of save points and follow-up operations (HReplay); TLC-enumerated plans executed with the tool's own "
                  "dump_program/load_program on real programs; per-operation observational equality validated by TLC",
        text="Save point (generated / erased once / erased twice / overwritten) x every sequence of <=2 (thorough: <=3) follow-up operations "
             "(translate own / other language, erase, overwrite, dump-and-load again) plus random longer ones, for programs of all four "
             "languages; each operation is applied to the original and to the loaded copy with the same random seed. Plus the driver's own saving "
             "(hephaestus.save_program under --keep-all, batch and stored test cases): 3 408 scenarios of one driver iteration (HPipeline, incl. steps "
             "that change the program but not its text) executed by the real gen_program; every saved source / .bin pair compared with the model.",
        design_ref="DESIGN.md §4 C13",
        note="Trusted: TLC, sha1 digests of translated text. Programs sampled by seed. Needs hook H1 for address-independent set iteration.",
    ),
    "C17": dict(
        category="exploration",
        technique="switch predicates over every type occurrence and type-parameter declaration as TLA+ operators (HSwitches); programs "
                  "generated under all 16 switch settings x 4 languages (switches wired through src/args.py), serialised structurally with "
                  "projection provenance, judged by TLC (HSwitchesTrace)",
        text="Exploration over seeds (8 per configuration quick, 60 thorough; 64 configurations); each generated program is checked "
             "completely: no projection / no contravariant projection / no bound / no function type parameter when the switch says so, no "
             "declaration-site variance for Java and Groovy, invariant function type parameters.",
        design_ref="DESIGN.md §4 C17",
        note="Trusted: TLC, the structural serialiser (pser.type_occurrences). Random programs: a violation that needs a rare shape may need the "
             "thorough tier.",
    ),
    "C18": dict(
        category="exploration",
        technique="TLA+ path model of the generator's call tree (HGenerator: leaf rule, depth increments, bottom cut) model-checked by TLC "
                  "for depth-boundedness and termination; the running pipeline instrumented from the harness and every call edge / dispatch "
                  "decision / stage outcome validated by TLC against the model (HGeneratorTrace)",
        text="Model checking of the skeleton (bounded and terminating once the zero-cost links of F17 are cut; TLC must find the lasso otherwise) "
             "plus exploration: 256 programs (quick) / 5 120 (thorough) over 4 languages x max_depth 2..8 x switch settings, each through all "
             "pipeline stages; no exception in any stage, every generator edge in the model's edge table with its depth increment, leaf rule at "
             "every dispatch, depth restored on exit, nesting and call budget bounded.",
        design_ref="DESIGN.md §4 C18",
        note="Exploration cannot prove absence of exceptions. The edge table was read off the code and calibrated on a census; DeclSlack and the "
             "nesting slack are calibrated constants. Wall-clock timeouts of the transformations are outside the model.",
    ),
    "C01": dict(
        category="exploration",
        technique="reference type checker as a TLA+ stack machine over the program's AST walk (HTyping, declarative subtyping with capture "
                  "approximation, boxing, conditionals as branch pairs); real generated programs serialised structurally and walked by TLC, one "
                  "state per AST node; every typed position judged",
        text="192 (quick) / 1 200 (thorough) programs over 4 languages, default and sampled switch settings; clauses InitAssignable, "
             "ArgAssignable (constructor, super, call, reference call, default, array), ResultAssignable, AssignAssignable, "
             "TypeArgWithinBound (every type occurrence), AbstractImplemented, OverrideCompatible, NoFinalSuper, OperandsComparable / OperandsBoolean. "
             "Plus generator scenes (HGenScene, model_checking within the family): the member Generator._get_matching_class finds for a wanted type is "
             "below it under the chosen instantiation; gen_comparison_expr asks for comparable operand types.",
        design_ref="DESIGN.md §4 C01, Appendix A",
        note="Exploration over seeds. The reference semantics is independent of type_utils.py and was cross-examined against the "
             "implementation in C06; it cannot be calibrated against kotlinc/groovyc/scalac (not installed).",
    ),
    "C05": dict(
        category="exploration",
        technique="the scope half of the HTyping stack machine in TLA+ (lexical scope stack, class scopes with inherited members, type "
                  "variables in scope, fresh identifiers, hard keywords of the four languages); generated programs walked by TLC",
        text="Same runs as C01 with separate clauses: Resolved (variable, field, function, reference callee, class, assignment target), "
             "ArityAdmitted (defaults, named arguments, varargs), AssignTargetNonFinal, InstantiatedConcrete, TypeVarsInScope, FreshInScope, "
             "NotReserved. Plus generator scenes (HGenScene): Generator._remove_unused_type_params on every small generic function header - used "
             "type parameters kept, no remaining bound mentions a removed one.",
        design_ref="DESIGN.md §4 C05",
        note="Exploration over seeds. Reserved-word sets are the languages' hard keywords, written in the spec (not read from src/resources).",
    ),
    "C03": dict(
        category="exploration",
        technique="erasure as a step on abstract programs (HMutation.EraseFrameBad: only annotations may disappear) validated by TLC on "
                  "before/after walks of the real TypeErasure; the erased program re-checked by the HTyping stack machine in inference mode",
        text="Frame: every field of every AST node identical except removed variable types, return types and inferable flags, for the first and a "
             "second application of the erasure. Inferability: the erased program has no typing/scoping violation it did not have before, with "
             "omitted variable types inferred from initializers and omitted constructor type arguments solved from expected type / arguments; a function "
             "whose return type was removed must not be called (also through a receiver) from its own body (ReturnNotInferable.Recursive).",
        design_ref="DESIGN.md §4 C03, Appendix B",
        note="Exploration over seeds (80 / 800 programs). One open finding (NarrowedByErasure) keyed by a predicate computed in the walk.",
    ),
    "C04": dict(
        category="exploration",
        technique="overwriting as a step on abstract programs (HMutation.OverwriteFrameBad: exactly one site, only its declared type / one type "
                  "argument), unrelatedness judged by HTypes on the program's class table, rejection judged by the HTyping walk; all by TLC on "
                  "recorded before/after pairs of the real TypeOverwriting",
        text="On generated and on erased programs, two random choices each: one site differs; replaced and replacing types unrelated in the "
             "declarative relation; message names both types and the node; the overwritten program is rejected by the reference checker; when "
             "nothing is injected the program and its translation are unchanged.",
        design_ref="DESIGN.md §4 C04",
        note="Exploration over seeds. 'A correct type checker must reject' is judged by the spec's reference semantics.",
    ),
    "C02": dict(
        category="other",
        technique="javac observed as the environment process of the driver model: TLA+ contract of Compile events (HJavac: PassOracle, "
                  "BatchIndependent), TLC-generated batch schedules, real JavaTranslator + real javac 17 + real output analysis, recorded events "
                  "validated by TLC (HJavacTrace)",
        text="72 (quick) / 960 (thorough) Java programs - generated and erased, both through one translator object as the driver does - compiled alone and in TLC-chosen batches and orders; no "
             "expected-pass file may be rejected and a file's verdict may not depend on its batch.",
        design_ref="DESIGN.md §4 C02",
        note="The property is by definition about javac's verdict; the spec contributes the oracle contract and the schedules, not a model of Java. "
             "javac 17 is trusted.",
    ),
    "C12": dict(
        category="exploration",
        technique="declaration surface in TLA+ (HSurface: the concrete syntax of types, type parameters, inheritance clauses, parameters, "
                  "modifiers of the four languages; TLC renders what every header must say and compares it with the header cut out of the real "
                  "translation by a lexer) + expected occurrence counts of declaration / literal / operator facts (HInventory) + TLC-enumerated "
                  "expression shapes (HExprGen) through the real translators",
        text="Generated, erased and overwritten programs x 4 languages (96 / 960 programs x 3 stages): per declared name the bag of class / function / "
             "field / variable headers - kind, finality, abstractness, override, type parameters with variance and bounds, extends / implements "
             "clauses, constructor fields, parameter names / types / varargs, declared return, variable and field types iff carried - equals the "
             "bag TLC renders from the program; no header beyond the program's; counts of typed / untyped declarations, inferable constructor "
             "calls, explicit call type arguments (Kotlin, Scala), string and numeric literals, operators, parameter names; bracket balance. "
             "Plus every binary expression over 12 operand kinds x 6 operators as a real program through the four translators "
             "(model_checking within that family).",
        design_ref="DESIGN.md §4 C12, Appendix C",
        note="The lexer / header splitter (harness/surface.py) and the textual count patterns (harness/scan.py) are trusted code. Not judged: local "
             "functions of Java / Groovy (printed as lambdas / closures), explicit type arguments of generic method calls in Java / Groovy (never "
             "printed - pre-study F5), expression structure beyond the presence of literals, operators and names.",
    ),
}

NOT_YET = "check not built yet (work in progress in this session; see DESIGN.md §10 for the order of work)"
NOT_APPLICABLE = {}


def main():
    checks = []
    for pid in ALL:
        if pid not in CHECKS:
            continue
        c = CHECKS[pid]
        checks.append({
            "property_id": pid,
            "quick_cmd": "./check %s --tier quick" % pid,
            "thorough_cmd": "./check %s --tier thorough" % pid,
            "evidence_file": "/verif/evidence/%s.json" % pid,
            "replay_cmd_template": "./check %s --replay {path}" % pid,
            "engine": "tlc",
            "level_claimed": {"category": c["category"], "text": c["text"], "design_ref": c["design_ref"]},
            "level_note": c["note"],
            "technique": c["technique"],
        })
    na = [{"property_id": p, "reason": NOT_APPLICABLE.get(p, NOT_YET)} for p in ALL if p not in CHECKS]
    hooks_commits = json.load(open(os.path.join(HERE, "hooks.json")))["source_commits"] if os.path.exists(os.path.join(HERE, "hooks.json")) else []
    m = {
        "version": 1,
        "setup_cmd": "./check --setup",
        "hooks": {
            "guard": "HEPHAESTUS_VERIF",
            "enable": "HEPHAESTUS_VERIF=1 in the environment of the driver processes (harness/core.py run_driver); hephaestus is pure Python, nothing is built",
            "baseline_off_cmd": "cd /repo && env -u HEPHAESTUS_VERIF /venv/bin/python -m pytest -ra -q -p no:cacheprovider --timeout=900 --continue-on-collection-errors",
            "source_commits": hooks_commits,
            "add_only": True,
        },
        "engines": [{
            "name": "tlc", "path": "/opt/veriftools/tla/tla2tools.jar", "serves_properties": [c["property_id"] for c in checks],
            "kind_free_text": "explicit-state model checker for the TLA+ modules under /verif/spec: generates cases (Gen), validates traces "
                              "recorded from the real code (Trace), model-checks the design (MC)"}],
        "checks": checks,
        "notes": "All deciding is done by TLC on /verif/spec/*.tla; Python only moves data between the spec and the real code. "
                 "Exit 2 = machinery failure. See DESIGN.md.",
        "not_applicable": na,
    }
    json.dump(m, open(os.path.join(HERE, "MANIFEST.json"), "w"), indent=1)
    print("MANIFEST: %d checks, %d not claimed" % (len(checks), len(na)))


main()
