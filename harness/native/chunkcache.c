/* Performance shim for the verification drivers (no effect on semantics).
 * CPython 3.11+/3.12 allocates its interpreter frame stack in 16 KiB chunks with mmap and returns them with munmap as the
 * recursion depth crosses a chunk boundary; the hephaestus generator recurses deeply and oscillates, which produces tens of
 * thousands of mmap/munmap pairs per program - and in this sandbox those calls serialise across processes.  This LD_PRELOAD
 * library keeps up to 256 such chunks in a free list instead of unmapping them. */
#define _GNU_SOURCE
#include <dlfcn.h>
#include <stddef.h>
#include <string.h>
#include <sys/mman.h>
#include <sys/types.h>

#define CHUNK 16384
#define MAXC 256
static void *cache[MAXC];
static int ncache = 0;
static volatile int lock = 0;
static void *(*real_mmap)(void *, size_t, int, int, int, off_t) = 0;
static int (*real_munmap)(void *, size_t) = 0;

static void take(void) { while (__sync_lock_test_and_set(&lock, 1)) { } }
static void give(void) { __sync_lock_release(&lock); }

void *mmap(void *addr, size_t len, int prot, int flags, int fd, off_t off) {
    if (!real_mmap) real_mmap = dlsym(RTLD_NEXT, "mmap");
    if (len == CHUNK && addr == NULL && fd == -1 && (flags & MAP_ANONYMOUS) && (flags & MAP_PRIVATE)
        && prot == (PROT_READ | PROT_WRITE)) {
        void *p = NULL;
        take();
        if (ncache > 0) p = cache[--ncache];
        give();
        if (p) { memset(p, 0, CHUNK); return p; }
    }
    return real_mmap(addr, len, prot, flags, fd, off);
}

void *mmap64(void *addr, size_t len, int prot, int flags, int fd, off_t off) {
    return mmap(addr, len, prot, flags, fd, off);
}

int munmap(void *addr, size_t len) {
    if (!real_munmap) real_munmap = dlsym(RTLD_NEXT, "munmap");
    if (len == CHUNK) {
        int kept = 0;
        take();
        if (ncache < MAXC) { cache[ncache++] = addr; kept = 1; }
        give();
        if (kept) return 0;
    }
    return real_munmap(addr, len);
}
