#!/usr/bin/env python3
"""Prints the prompt given to a mutant-writing sub-agent for one property (only the property text + its own worktree)."""
import json
import sys

pid = sys.argv[1]
tag = sys.argv[2] if len(sys.argv) > 2 else pid          # directory suffix (second rounds use e.g. C15r2)
avoid = sys.argv[3] if len(sys.argv) > 3 else ""         # one-line descriptions of changes already delivered in earlier rounds
p = next(json.loads(l) for l in open("/verif/properties.jsonl") if json.loads(l)["id"] == pid)
print(f"""You are helping to evaluate a verification effort by writing realistic *breaking changes* (seeded faults) for an open-source
Python project, hephaestus (a program generator / compiler-testing tool). You work ONLY inside your own scratch git worktree of the
project at /tmp/wt_{tag} (a detached checkout; run things there with `cd /tmp/wt_{tag} && /venv/bin/python ...`). Do not read or touch
/repo, /verif or any other directory outside /tmp/wt_{tag} and your output directory /tmp/mut_{tag}. No network is available.

The semantic property that your changes must break:

  id: {p['id']}
  title: {p['title']}
  statement: {p['statement']}
  quantifier: {p['quantifier']['text']}
  relevant files: {', '.join(p['anchors']['files'])}

Task: produce TWO independent changes (different mechanisms, different code sites if possible) to the project's source code, each of which
  (a) breaks the property above for some inputs,
  (b) still lets the project import/run, and still passes the project's existing test suite
      (`cd /tmp/wt_{tag} && /venv/bin/python -m pytest -q -p no:cacheprovider tests` must still show 161 passed), and
  (c) needs something specific to manifest - a particular multi-step sequence of operations, an unusual input shape, a particular
      configuration/switch, a specific interleaving or history, or two cooperating sites that each look fine alone - i.e. NOT a change that
      ordinary use would expose at once (not "always return False", not a crash on every call). Think of the kind of plausible bug a
      maintainer could introduce in a refactoring: an off-by-one, a dropped condition, a reversed variance test in one branch, a missing copy,
      a cache that is not reset, a wrong loop variable, a boundary case.
Keep each change small (a few lines). Do not edit tests. Do not add new files to the project for the change itself.

For each change i in (1, 2) write into /tmp/mut_{tag}/m<i>/ :
  - patch.diff : output of `git diff` for that change alone (relative to the worktree's HEAD), applicable with `git apply` in a clean checkout;
  - demo.py    : a small self-contained program (run as `cd <checkout> && /venv/bin/python /path/to/demo.py`, it may `sys.path.insert(0, os.getcwd())`)
                 that exits 0 on the unchanged code and exits non-zero (failing an assertion that states the property) with the change applied.
                 It must be deterministic (seed any randomness; set random seeds before importing project modules if needed);
  - meta.json  : {{"property": "{pid}", "summary": "...what was changed...", "needs": "...what is needed for the fault to manifest...",
                  "files": [...]}}
Verify all of (a)-(c) yourself: run the test suite with each change applied, run demo.py with and without the change (use `git stash` /
`git checkout -- .` in the worktree to switch), and leave the worktree clean (`git checkout -- .`) when you finish.
{("Changes that were already delivered by someone else and must NOT be repeated (find other mechanisms at other code sites): " + avoid) if avoid else ""}
Finally reply with a short summary of the two changes and what you verified. If you cannot find a second change, deliver one.""")
