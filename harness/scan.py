"""Textual probes for C12 (trusted base): one regular pattern per fact kind and language; counts occurrences in the emitted text.
String and character literals are blanked out before structural patterns are counted."""
import re

STR = re.compile(r'"(?:[^"\\\n]|\\.)*"')
CHR = re.compile(r"'(?:[^'\\\n]|\\.)'")


def blank_literals(text):
    return CHR.sub("''", STR.sub('""', text))


def patterns(lang, kind, name):
    n = re.escape(name)
    if kind == "class":
        kw = {"kotlin": r"(?:class|interface)", "scala": r"(?:class|trait)", "java": r"(?:class|interface)", "groovy": r"(?:class|interface|trait)"}[lang]
        return r"\b%s\s+%s\b" % (kw, n)
    if kind == "fun":
        if lang == "kotlin":
            return r"\bfun\s+(?:<[^()]*>\s*)?%s\s*\(" % n
        if lang == "scala":
            return r"\bdef\s+%s\s*[\[(]" % n
    if kind == "var_typed":
        if lang in ("kotlin", "scala"):
            return r"\b(?:val|var)\s+%s\s*:" % n
    if kind in ("var_untyped", "var_untyped_top", "var_untyped_local"):
        if lang in ("kotlin", "scala"):
            return r"\b(?:val|var)\s+%s\s*=" % n
        if lang == "groovy":
            return r"\bdef\s+%s\s*=" % n
        if lang == "java":
            return r"\bvar\s+%s\s*=" % n
    if kind == "closure_untyped" and lang == "groovy":
        return r"\bdef\s+%s\s*=\s*\{" % n
    if kind == "closure_typed" and lang == "groovy":
        return r"\bClosure<[^\n]*>\s+%s\s*=\s*\{" % n
    if kind == "new_inferred":
        if lang == "kotlin":
            return r"(?<![\w.])%s\s*\(" % n
        if lang == "scala":
            return r"\bnew\s+%s\s*\(" % n
        if lang in ("java", "groovy"):
            return r"\bnew\s+%s\s*<>\s*\(" % n
    return None


def count(lang, text, kind, name):
    if kind == "str":
        return sum(1 for m in STR.finditer(text) if m.group(0)[1:-1] == name or _unescape(m.group(0)[1:-1]) == name)
    bl = blank_literals(text)
    if kind == "balanced":
        depth = {"(": 0, "[": 0, "{": 0}
        close = {")": "(", "]": "[", "}": "{"}
        for ch in bl:
            if ch in depth:
                depth[ch] += 1
            elif ch in close:
                depth[close[ch]] -= 1
                if depth[close[ch]] < 0:
                    return 0
        return 1 if all(v == 0 for v in depth.values()) else 0
    pat = patterns(lang, kind, name)
    if pat is None:
        return 999999
    return len(re.findall(pat, bl))


def _unescape(s):
    return s.replace('\\"', '"').replace("\\\\", "\\").replace("\\$", "$")
