"""Textual probes for C12 (trusted base): one regular pattern per fact kind and language; counts occurrences in the emitted text.
String and character literals are blanked out before structural patterns are counted."""
import re

STR = re.compile(r'"(?:[^"\\\n]|\\.)*"')
CHR = re.compile(r"'(?:[^'\\\n]|\\.)'")
NUM = re.compile(r"(?<![\w.])(\d+(?:\.\d+)?(?:[eE][-+]?\d+)?)[fFlLdD]?(?![\w])")


def blank_literals(text):
    return CHR.sub("''", STR.sub('""', text))


def patterns(lang, kind, name):
    n = re.escape(name)
    if kind == "class":
        kw = {"kotlin": r"(?:class|interface)", "scala": r"(?:class|trait)", "java": r"(?:class|interface)", "groovy": r"(?:class|interface|trait)"}[lang]
        return r"\b%s\s+%s\b" % (kw, n)
    if kind == "fun":
        if lang == "kotlin":
            return r"\bfun\s+(?:<[^()]*>\s*)?%s\s*\(" % n
        if lang == "scala":
            return r"\bdef\s+%s\s*[\[(]" % n
    if kind == "var_typed":
        if lang in ("kotlin", "scala"):
            return r"\b(?:val|var)\s+%s\s*:" % n
    if kind in ("var_untyped", "var_untyped_top", "var_untyped_local"):
        if lang in ("kotlin", "scala"):
            return r"\b(?:val|var)\s+%s\s*=" % n
        if lang == "groovy":
            return r"\bdef\s+%s\s*=" % n
        if lang == "java":
            return r"\bvar\s+%s\s*=" % n
    if kind == "closure_untyped" and lang == "groovy":
        return r"\bdef\s+%s\s*=\s*\{" % n
    if kind == "closure_typed" and lang == "groovy":
        return r"\bClosure<[^\n]*>\s+%s\s*=\s*\{" % n
    if kind == "call_targs":
        if lang == "kotlin":
            return r"(?<![\w])%s<" % n
        if lang == "scala":
            return r"`%s`\[" % n
    if kind == "param":
        return r"(?<![\w`])%s(?![\w`])" % n
    if kind == "new_inferred":
        if lang == "kotlin":
            return r"(?<![\w.])%s\s*\(" % n
        if lang == "scala":
            return r"\bnew\s+%s\s*\(" % n
        if lang in ("java", "groovy"):
            return r"\bnew\s+%s\s*<>\s*\(" % n
    return None


def count(lang, text, kind, name):
    if kind == "str":
        return sum(1 for m in STR.finditer(text) if m.group(0)[1:-1] == name or _unescape(m.group(0)[1:-1]) == name)
    bl = blank_literals(text)
    if kind == "balanced":
        depth = {"(": 0, "[": 0, "{": 0}
        close = {")": "(", "]": "[", "}": "{"}
        for ch in bl:
            if ch in depth:
                depth[ch] += 1
            elif ch in close:
                depth[close[ch]] -= 1
                if depth[close[ch]] < 0:
                    return 0
        return 1 if all(v == 0 for v in depth.values()) else 0
    if kind == "lit":
        return sum(1 for m in NUM.finditer(bl) if m.group(1) == name)
    if kind == "op":
        return bl.count(name)
    pat = patterns(lang, kind, name)
    if pat is None:
        return 999999
    return len(re.findall(pat, bl))


def _split_top(s, lang="kotlin"):
    """split a type-parameter list at its top-level commas (in Scala < and > are not brackets: T <: B)"""
    out, depth, cur = [], 0, ""
    op, cl = ("[(", "])") if lang == "scala" else ("<[(", ">])")
    for ch in s:
        if ch in op:
            depth += 1
        elif ch in cl:
            depth -= 1
        if ch == "," and depth == 0:
            out.append(cur)
            cur = ""
        else:
            cur += ch
    return out + [cur]


def _param_list(bl, start, open_ch, close_ch):
    """text between the bracket at bl[start] and its matching bracket"""
    depth = 0
    for i in range(start, len(bl)):
        if bl[i] == open_ch:
            depth += 1
        elif bl[i] == close_ch:
            depth -= 1
            if depth == 0:
                return bl[start + 1:i]
    return ""


def count_tparam(lang, text, kind, owner, tparam):
    """number of headers of `owner` (a function or a class) whose type-parameter list declares `tparam`"""
    bl = blank_literals(text).replace("->", "  ").replace("=>", "  ")
    o = re.escape(owner)
    hits = 0
    if kind == "fun_tparam":
        if lang == "kotlin":
            heads = [(m.end() - 1, "<", ">") for m in re.finditer(r"\bfun\s*<", bl)]
            # the list comes before the name: keep the headers whose name (after the list) is the owner
            for st, a, b in heads:
                lst = _param_list(bl, st, a, b)
                rest = bl[st + len(lst) + 2:]
                if re.match(r"\s*%s\s*\(" % o, rest) and any(re.match(r"\s*(?:in\s+|out\s+)?%s\b" % re.escape(tparam), it) for it in _split_top(lst, lang)):
                    hits += 1
            return hits
        if lang == "scala":
            for m in re.finditer(r"\bdef\s+%s\s*\[" % o, bl):
                lst = _param_list(bl, m.end() - 1, "[", "]")
                if any(re.match(r"\s*[+-]?%s\b" % re.escape(tparam), it) for it in _split_top(lst, lang)):
                    hits += 1
            return hits
        return 999999
    kw = {"kotlin": r"(?:class|interface)", "scala": r"(?:class|trait)", "java": r"(?:class|interface)", "groovy": r"(?:class|interface|trait)"}[lang]
    a, b = ("[", "]") if lang == "scala" else ("<", ">")
    for m in re.finditer(r"\b%s\s+%s\s*%s" % (kw, o, re.escape(a)), bl):
        lst = _param_list(bl, m.end() - 1, a, b)
        if any(re.match(r"\s*(?:in\s+|out\s+|[+-])?%s\b" % re.escape(tparam), it) for it in _split_top(lst, lang)):
            hits += 1
    return hits


def _unescape(s):
    return s.replace('\\"', '"').replace("\\\\", "\\").replace("\\$", "$")
