#!/bin/sh
# Runs a tier of every registered check in sequence and prints one summary line per check (used with `vp run`).
tier=${1:-thorough}
./check --setup
for id in C19 C16 C06 C07 C08 C09 C10 C14 C15 C11 C13 C17 C18 C01 C05 C03 C04 C12 C02; do
  start=$(date +%s)
  ./check $id --tier $tier > run_$id.log 2>&1
  rc=$?
  echo "$id rc=$rc $(( $(date +%s) - start ))s violations=$(grep -c '^VIOLATION' run_$id.log) known=$(grep -c '^KNOWN-FINDING' run_$id.log)"
  grep -h "violations by clause\|MACHINERY" run_$id.log | cut -c1-300
done
