"""Dumb structural serialiser: ast.Program -> abstract program of the spec (class table + top-level signatures + walk).

The walk is the AST in program order as a sequence of events: Enter/Exit for scopes and one post-order event per expression
or declaration node carrying the node's own fields.  No type reasoning and no name resolution happens here."""
from src.ir import ast, types as tp

import hlib
from hlib import ser as ser_t

VAR = {0: "inv", 1: "out", 2: "in"}


def opt(t):
    return [ser_t(t)] if t is not None else []


def ser_tparams(tps):
    return [{"n": t.name, "v": VAR[t.variance.value], "b": opt(t.bound)} for t in tps]


def ser_fun(f):
    return {"n": f.name, "tp": ser_tparams(f.type_parameters),
            "params": [{"n": p.name, "t": ser_t(p.param_type), "vararg": bool(p.vararg), "dflt": p.default is not None} for p in f.params],
            "ret": opt(f.get_type()), "declared_ret": opt(f.ret_type), "abstract": f.body is None, "final": bool(f.is_final),
            "override": bool(f.override), "kind": {0: "class_method", 1: "function"}.get(f.func_type, str(f.func_type))}


def builtin_table(fac, maxfun=4):
    ct = {}

    def entry(name, tps, sups):
        ct.setdefault(name, {"kind": "builtin", "final": True, "tp": ser_tparams(tps), "sup": [ser_t(s) for s in sups], "fields": [], "funs": []})

    def add(t):
        if isinstance(t, tp.ParameterizedType):
            tc = t.t_constructor
            entry(hlib.cname(tc), tc.type_parameters, tc.supertypes)
            for s in tc.supertypes:
                add(s)
        elif isinstance(t, tp.TypeConstructor):
            entry(hlib.cname(t), t.type_parameters, t.supertypes)
            for s in t.supertypes:
                add(s)
        elif getattr(t, "primitive", False):
            return
        else:
            name = hlib.canon(t)
            if name in ct:
                return
            entry(name, [], t.supertypes)
            for s in t.supertypes:
                add(s)
    for t in fac.get_non_nothing_types():
        add(t)
    add(fac.get_void_type())
    for i in range(maxfun + 1):
        add(fac.get_function_type(i))
    return ct


class Walker:
    def __init__(self):
        self.ev = []
        self.owners = []      # kinds of the enclosing declarations (structural context of a function: top / class / local)

    def owner(self):
        if not self.owners:
            return "top"
        return "class" if self.owners[-1] == "Class" else "local"

    def e(self, **k):
        self.ev.append(k)

    def walk(self, n):
        if isinstance(n, ast.VariableDeclaration):
            self.walk(n.expr)
            self.e(ev="VarDecl", name=n.name, final=bool(n.is_final), vt=opt(n.var_type), it=opt(n.inferred_type))
        elif isinstance(n, ast.FieldDeclaration):
            self.e(ev="FieldDecl", name=n.name, t=ser_t(n.field_type), final=bool(n.is_final), override=bool(n.override), open=bool(n.can_override))
        elif isinstance(n, ast.FunctionDeclaration):
            own = self.owner()
            self.owners.append("Fun")
            self.e(ev="Enter", kind="Fun", name=n.name, tps=ser_tparams(n.type_parameters), t=[], owner=own, noret=n.ret_type is None)
            for p in n.params:
                if p.default is not None:
                    self.walk(p.default)
                self.e(ev="ParamDecl", name=p.name, t=ser_t(p.param_type), vararg=bool(p.vararg), dflt=p.default is not None)
            if n.body is not None:
                self.walk(n.body)
            self.owners.pop()
            self.e(ev="Exit", kind="Fun", name=n.name, body=n.body is not None, ret=opt(n.get_type()),
                   block=isinstance(n.body, ast.Block), sig=ser_fun(n), owner=own)
        elif isinstance(n, ast.Lambda):
            self.owners.append("Lambda")
            self.e(ev="Enter", kind="Lambda", name=n.name, tps=[], t=[])
            for p in n.params:
                self.e(ev="ParamDecl", name=p.name, t=ser_t(p.param_type), vararg=False, dflt=False)
            if n.body is not None:
                self.walk(n.body)
            self.owners.pop()
            self.e(ev="Exit", kind="Lambda", name=n.name, body=True, ret=opt(n.ret_type),
                   block=isinstance(n.body, ast.Block), sig=opt(n.signature))
        elif isinstance(n, ast.ClassDeclaration):
            self.owners.append("Class")
            self.e(ev="Enter", kind="Class", name=n.name, tps=ser_tparams(n.type_parameters), t=[])
            for s in n.superclasses:
                for a in (s.args or []):
                    self.walk(a)
                self.e(ev="Super", t=ser_t(s.class_type), nk=len(s.args or []), noargs=s.args is None)
            for f in n.fields:
                self.walk(f)
            for f in n.functions:
                self.walk(f)
            self.owners.pop()
            self.e(ev="Exit", kind="Class", name=n.name, body=True, ret=[], block=False, sig=[])
        elif isinstance(n, ast.Block):
            self.e(ev="Enter", kind="Block", name="", tps=[], t=[])
            for c in n.body:
                self.walk(c)
            self.e(ev="Exit", kind="Block", name="", body=True, ret=[], block=True, sig=[])
        elif isinstance(n, ast.Conditional):
            self.walk(n.cond)
            sc = isinstance(n.cond, ast.Is) and isinstance(n.cond.lexpr, ast.Variable) and not n.cond.operator.is_not
            self.e(ev="Enter", kind="True", name=n.cond.lexpr.name if sc else "", tps=[], t=[ser_t(n.cond.rexpr)] if sc else [])
            self.walk(n.true_branch)
            self.e(ev="Exit", kind="True", name="", body=True, ret=[], block=False, sig=[])
            self.e(ev="Enter", kind="False", name="", tps=[], t=[])
            self.walk(n.false_branch)
            self.e(ev="Exit", kind="False", name="", body=True, ret=[], block=False, sig=[])
            self.e(ev="Cond", t=opt(n.inferred_type))
        elif isinstance(n, ast.Is):
            self.walk(n.lexpr)
            self.e(ev="Is", t=ser_t(n.rexpr))
        elif isinstance(n, ast.BinaryOp):
            self.walk(n.lexpr)
            self.walk(n.rexpr)
            self.e(ev="BinOp", op=str(n.operator), kind=type(n).__name__)
        elif isinstance(n, ast.Variable):
            self.e(ev="Var", name=n.name)
        elif isinstance(n, ast.BottomConstant):
            self.e(ev="Bottom", t=opt(n.t))
        elif isinstance(n, ast.IntegerConstant):
            self.e(ev="Const", t=opt(n.integer_type), lit="int", text=str(n.literal))
        elif isinstance(n, ast.RealConstant):
            self.e(ev="Const", t=opt(n.real_type), lit="real", text=str(n.literal))
        elif isinstance(n, ast.BooleanConstant):
            self.e(ev="Const", t=[], lit="bool", text=str(n.literal))
        elif isinstance(n, ast.CharConstant):
            self.e(ev="Const", t=[], lit="char", text=str(n.literal))
        elif isinstance(n, ast.StringConstant):
            self.e(ev="Const", t=[], lit="string", text=str(n.literal))
        elif isinstance(n, ast.ArrayExpr):
            for c in n.exprs:
                self.walk(c)
            self.e(ev="Array", t=ser_t(n.array_type), nk=len(n.exprs))
        elif isinstance(n, ast.New):
            for a in n.args:
                self.walk(a)
            self.e(ev="New", t=ser_t(n.class_type), nk=len(n.args), infer=bool(getattr(n.class_type, "can_infer_type_args", False)))
        elif isinstance(n, ast.FieldAccess):
            self.walk(n.expr)
            self.e(ev="Field", name=n.field)
        elif isinstance(n, ast.FunctionCall):
            if n.receiver is not None:
                self.walk(n.receiver)
            for a in n.args:
                self.walk(a.expr)
            self.e(ev="Call", name=n.func, recv=n.receiver is not None, ref=bool(n.is_ref_call), nk=len(n.args),
                   argnames=[a.name or "" for a in n.args], targs=[ser_t(t) for t in (n.type_args or [])],
                   infer=bool(n.can_infer_type_args))
        elif isinstance(n, ast.Assignment):
            if n.receiver is not None:
                self.walk(n.receiver)
            self.walk(n.expr)
            self.e(ev="Assign", name=n.name, recv=n.receiver is not None)
        elif isinstance(n, ast.FunctionReference):
            if n.receiver is not None:
                self.walk(n.receiver)
            self.e(ev="FuncRef", name=n.func, recv=n.receiver is not None, sig=opt(n.signature))
        else:
            raise TypeError("unhandled node " + type(n).__name__)


def class_entry(d):
    return {"kind": {0: "regular", 1: "interface", 2: "abstract"}[d.class_type], "final": bool(d.is_final),
            "tp": ser_tparams(d.type_parameters), "sup": [ser_t(s.class_type) for s in d.superclasses],
            "fields": [{"n": f.name, "t": ser_t(f.field_type), "final": bool(f.is_final), "override": bool(f.override), "open": bool(f.can_override)} for f in d.fields],
            "funs": [ser_fun(f) for f in d.functions]}


def ser_program(p, maxfun=4, walk=True):
    tops = list(p.context.get_declarations(("global",), only_current=True).values())
    ct = builtin_table(p.bt_factory, maxfun)
    for d in tops:
        if isinstance(d, ast.ClassDeclaration):
            ct[d.name] = class_entry(d)
    g = {"vars": [{"n": d.name, "t": opt(d.get_type()), "final": bool(d.is_final)} for d in tops if isinstance(d, ast.VariableDeclaration)],
         "funs": [ser_fun(d) for d in tops if isinstance(d, ast.FunctionDeclaration)]}
    w = Walker()
    if walk:
        for d in tops:
            w.walk(d)
    return {"lang": p.language, "ct": ct, "g": g, "ev": w.ev}


# ---- every type occurrence of a program, with the place it occurs (C17) -------------------------------------------------
def type_occurrences(p):
    """[(where, term)] for every type written or recorded anywhere in the program, and the declared type parameters."""
    occ, tparams = [], []

    def T(where, t):
        if t is not None:
            occ.append([where, ser_t(t)])

    def tps(where, owner_kind, lst):
        for t in lst:
            tparams.append({"where": where, "owner": owner_kind, "n": t.name, "v": VAR[t.variance.value], "b": opt(t.bound)})
            T(where + "/bound", t.bound)

    def visit(n, where):
        if isinstance(n, ast.VariableDeclaration):
            T(where + "/var " + n.name, n.var_type)
            T(where + "/var " + n.name + " (inferred)", n.inferred_type)
            visit(n.expr, where)
        elif isinstance(n, ast.FieldDeclaration):
            T(where + "/field " + n.name, n.field_type)
        elif isinstance(n, ast.FunctionDeclaration):
            w = where + "/fun " + n.name
            tps(w, "function", n.type_parameters)
            T(w + "/ret", n.ret_type)
            T(w + "/ret (inferred)", n.inferred_type)
            for q in n.params:
                T(w + "/param " + q.name, q.param_type)
                if q.default is not None:
                    visit(q.default, w)
            if n.body is not None:
                visit(n.body, w)
        elif isinstance(n, ast.Lambda):
            w = where + "/lambda " + n.name
            T(w + "/ret", n.ret_type)
            T(w + "/sig", n.signature)
            for q in n.params:
                T(w + "/param " + q.name, q.param_type)
            if n.body is not None:
                visit(n.body, w)
        elif isinstance(n, ast.ClassDeclaration):
            w = where + "/class " + n.name
            tps(w, "class", n.type_parameters)
            for s in n.superclasses:
                T(w + "/super", s.class_type)
                for a in (s.args or []):
                    visit(a, w)
            for f in n.fields:
                visit(f, w)
            for f in n.functions:
                visit(f, w)
        elif isinstance(n, ast.Block):
            for c in n.body:
                visit(c, where)
        elif isinstance(n, ast.Conditional):
            T(where + "/cond", n.inferred_type)
            visit(n.cond, where)
            visit(n.true_branch, where)
            visit(n.false_branch, where)
        elif isinstance(n, ast.Is):
            T(where + "/is", n.rexpr)
            visit(n.lexpr, where)
        elif isinstance(n, ast.BinaryOp):
            visit(n.lexpr, where)
            visit(n.rexpr, where)
        elif isinstance(n, ast.BottomConstant):
            T(where + "/bottom", n.t)
        elif isinstance(n, ast.IntegerConstant):
            T(where + "/int", n.integer_type)
        elif isinstance(n, ast.RealConstant):
            T(where + "/real", n.real_type)
        elif isinstance(n, ast.ArrayExpr):
            T(where + "/array", n.array_type)
            for c in n.exprs:
                visit(c, where)
        elif isinstance(n, ast.New):
            T(where + "/new", n.class_type)
            for a in n.args:
                visit(a, where)
        elif isinstance(n, ast.FieldAccess):
            visit(n.expr, where)
        elif isinstance(n, ast.FunctionCall):
            for t in (n.type_args or []):
                T(where + "/call " + n.func + " type-arg", t)
            if n.receiver is not None:
                visit(n.receiver, where)
            for a in n.args:
                visit(a.expr, where)
        elif isinstance(n, ast.Assignment):
            if n.receiver is not None:
                visit(n.receiver, where)
            visit(n.expr, where)
        elif isinstance(n, ast.FunctionReference):
            T(where + "/funcref " + n.func, n.signature)
            if n.receiver is not None:
                visit(n.receiver, where)
        elif isinstance(n, (ast.Variable, ast.Constant)) or n is None:
            return
        else:
            raise TypeError("unhandled node " + type(n).__name__)

    for d in p.context.get_declarations(("global",), only_current=True).values():
        visit(d, "global")
    return occ, tparams
