"""Deterministic driving of the real generator / mutations / translators (one process = one configuration).

Recipe (DESIGN.md §3): PYTHONHASHSEED=0, HEPHAESTUS_VERIF=1 (creation-ordered node hashes), the *module-level* random seeded
before src.utils is imported (it draws the word pool at import), sys.argv crafted so that src.args wires the switches into the
generator configuration exactly as the CLI does, then per program utils.random.r.seed(seed) + reset_word_pool().
"""
import copy
import os
import random
import sys
import threading
import traceback

_STATE = {}


def setup(lang, dis_use=False, dis_contra=False, no_bounds=False, no_param_fn=False, max_depth=6, word_seed=0):
    """Import the project with the switches wired through src/args.py (as the CLI does)."""
    assert "src.utils" not in sys.modules, "setup() must run before the project is imported"
    random.seed(word_seed)
    argv = ["hephaestus.py", "--language", lang, "--iterations", "1", "-t", "0", "--bugs", "/nonexistent_bugs", "--name", "verif",
            "--max-depth", str(max_depth)]
    if dis_use:
        argv.append("--disable-use-site-variance")
    if dis_contra:
        argv.append("--disable-contravariance-use-site")
    if no_bounds:
        argv.append("--disable-bounded-type-parameters")
    if no_param_fn:
        argv.append("--disable-parameterized-functions")
    sys.argv = argv
    sys.setrecursionlimit(20000)
    import src.args as A   # noqa: F401  (parses argv, wires cfg, removes reserved words)
    from src import utils
    _STATE.update(lang=lang, utils=utils, args=A.args)
    return A.args


def in_big_stack(fn):
    """Run fn in a thread with a large stack (deep recursion of the generator / deepcopy / pickle)."""
    box = {}

    def target():
        try:
            box["r"] = fn()
        except BaseException as e:  # noqa: BLE001
            box["e"] = e
            box["tb"] = traceback.format_exc()
    threading.stack_size(512 * 1024 * 1024)
    t = threading.Thread(target=target)
    t.start()
    threading.stack_size(0)      # later threads (the transformations' Timer threads) get the default stack again
    t.join()
    if "e" in box:
        raise box["e"]
    return box["r"]


def reseed(seed):
    """Everything a generated program depends on besides the configuration: the RNG, the word pool and (hook H1) the serial
    numbers that order sets of IR nodes - so that (configuration, seed) determines the program whatever ran before."""
    import itertools
    import src.ir.node as N
    u = _STATE["utils"]
    u.random.r.seed(seed)
    u.random.reset_word_pool()
    if hasattr(N, "_serial"):
        N._serial = itertools.count(1)


def generate(seed):
    from src.generators.generator import Generator
    reseed(seed)
    return Generator(language=_STATE["lang"], options={}).generate()


def erase(program, seed=None, inplace=False):
    """TypeErasure on a deep copy (or, as the driver does, on the object itself); returns (new program, transformer)."""
    from src.transformations.type_erasure import TypeErasure
    if seed is not None:
        _STATE["utils"].random.r.seed(seed)
    p = program if inplace else copy.deepcopy(program)
    t = TypeErasure(p, _STATE["lang"], None, {})
    t.transform()
    return t.result(), t


def overwrite(program, seed=None, inplace=False):
    from src.transformations.type_overwriting import TypeOverwriting
    if seed is not None:
        _STATE["utils"].random.r.seed(seed)
    p = program if inplace else copy.deepcopy(program)
    t = TypeOverwriting(p, _STATE["lang"], None, {})
    t.transform()
    return t.result(), t


def translator(lang=None, package="src.pkg", options=None):
    from src.translators.kotlin import KotlinTranslator
    from src.translators.groovy import GroovyTranslator
    from src.translators.scala import ScalaTranslator
    from src.translators.java import JavaTranslator
    T = {"kotlin": KotlinTranslator, "groovy": GroovyTranslator, "java": JavaTranslator, "scala": ScalaTranslator}[lang or _STATE["lang"]]
    return T(package, options if options is not None else {"cast_numbers": False})


def translate(program, lang=None, tr=None, package="src.pkg"):
    tr = tr or translator(lang, package)
    return _STATE["utils"].translate_program(tr, program)
