"""Term <-> real object conversion shared by the drivers.  Deliberately dumb: structural only, no type reasoning."""
import json
import random as _pyrandom
import sys

from src.ir import ast, types as tp, BUILTIN_FACTORIES
from src.ir import builtins as bt

VAR = {"inv": tp.Invariant, "out": tp.Covariant, "in": tp.Contravariant}
VNAME = {0: "inv", 1: "out", 2: "in"}
def real_builtin_entries(factory, ct):
    """The language's own built-in hierarchy for the built-in names used by a class table (an input, like user classes)."""
    out, todo = {}, [n for n in ct if n in BUILTIN_GETTERS]
    objs = {n: getattr(factory, BUILTIN_GETTERS[n])() for n in todo}
    while todo:
        n = todo.pop()
        sups = []
        for s in objs[n].supertypes:
            t = ser(s)
            if t not in sups:
                sups.append(t)
            if t["n"] not in objs:
                objs[t["n"]] = s
                todo.append(t["n"])
        out[n] = {"tp": [], "sup": sups}
    return out


BUILTIN_GETTERS = {
    "Any": "get_any_type", "Number": "get_number_type", "Int": "get_integer_type", "String": "get_string_type",
    "Byte": "get_byte_type", "Short": "get_short_type", "Long": "get_long_type", "Float": "get_float_type",
    "Double": "get_double_type", "Boolean": "get_boolean_type", "Char": "get_char_type", "Void": "get_void_type",
}


def C(n, *a):
    return {"k": "C", "n": n, "a": list(a)}


def W(v, *a):
    return {"k": "W", "n": v, "a": list(a)}


def V(n, *a):
    return {"k": "V", "n": n, "a": list(a)}


class Table:
    """Real declarations for a class table given as JSON (spec format), built the way the generator builds them:
    ast.ClassDeclaration(...).get_type() and TypeConstructor.new(...)."""

    def __init__(self, ct, order, lang="kotlin"):
        self.ct, self.lang = ct, lang
        self.factory = BUILTIN_FACTORIES[lang]
        self.decl, self.tparams = {}, {}
        for name in order:
            e = ct[name]
            tps, env = [], {}
            for p in e["tp"]:
                t = tp.TypeParameter(p["n"], VAR[p["v"]], self.build(p["b"][0], env) if p["b"] else None)
                tps.append(t)
                env[p["n"]] = t
            self.tparams[name] = env
            sups = [ast.SuperClassInstantiation(self.build(s, env), []) for s in e["sup"]]
            kind = {"interface": ast.ClassDeclaration.INTERFACE, "abstract": ast.ClassDeclaration.ABSTRACT}.get(
                e.get("kind", "regular"), ast.ClassDeclaration.REGULAR)
            self.decl[name] = ast.ClassDeclaration(name, sups, kind, fields=[], functions=[], is_final=False,
                                                   type_parameters=tps)

    def builtin(self, name):
        return getattr(self.factory, BUILTIN_GETTERS[name])()

    def build(self, t, env=None):
        env = env or {}
        k = t["k"]
        if k == "V":
            if t["n"] in env:
                return env[t["n"]]
            return tp.TypeParameter(t["n"], tp.Invariant, self.build(t["a"][0], env) if t["a"] else None)
        if k == "W":
            if t["n"] == "star":
                return tp.WildCardType()
            return tp.WildCardType(self.build(t["a"][0], env), VAR[t["n"]])
        if k == "N":
            return self.factory.get_nothing() if hasattr(self.factory, "get_nothing") and self.lang == "kotlin" else tp.Nothing
        if k == "K":
            return self.decl[t["n"]].get_type()
        if k == "P":
            prim = [p for p in self.factory.get_primitive_types() if p.get_builtin_type().name == t["n"]]
            return prim[0]
        if k == "C":
            if t["n"] in BUILTIN_GETTERS and t["n"] not in self.decl:
                return self.builtin(t["n"])
            if t["n"] == "Array":
                return self.factory.get_array_type().new([self.build(a, env) for a in t["a"]])
            if t["n"] == "SArray":       # Kotlin's specialised arrays: the language's own objects (IntArray, ...)
                return next(x for x in self.factory.get_non_nothing_types()
                            if getattr(x, "t_constructor", None).__class__.__name__ == "SpecializedArrayType" and ser(x) == t)
            ty = self.decl[t["n"]].get_type()
            if not t["a"]:
                return ty
            return ty.new([self.build(a, env) for a in t["a"]])
        raise ValueError(k)


def ser(t):
    """Real type object -> term (structural)."""
    if t is None:
        return None
    if isinstance(t, (tp.NothingType, bt.NothingType)) or t.__class__.__name__ == "NothingType":
        return {"k": "N", "n": "Nothing", "a": []}
    if isinstance(t, tp.WildCardType):
        if t.bound is None:
            return {"k": "W", "n": "star", "a": []}
        return {"k": "W", "n": VNAME[t.variance.value] if t.variance.value else "inv", "a": [ser(t.bound)]}
    if isinstance(t, tp.TypeParameter):
        return {"k": "V", "n": t.name, "a": [ser(t.bound)] if t.bound is not None else []}
    if isinstance(t, tp.ParameterizedType):
        return {"k": "C", "n": cname(t.t_constructor), "a": [ser(a) for a in t.type_args]}
    if isinstance(t, tp.TypeConstructor):
        return {"k": "K", "n": cname(t), "a": []}
    if isinstance(t, tp.Builtin):
        name = canon(t)
        if getattr(t, "primitive", False):
            return {"k": "P", "n": name, "a": []}
        return {"k": "C", "n": name, "a": []}
    if isinstance(t, tp.SimpleClassifier):
        return {"k": "C", "n": t.name, "a": []}
    raise TypeError("cannot serialise %r (%s)" % (t, type(t)))


def canon(t):
    if t.__class__.__name__ == "AnyRefType":
        return "AnyRef"
    try:
        return t.get_builtin_type().name
    except (NotImplementedError, AttributeError):
        return t.name


def cname(tc):
    """Name of a type constructor; built-in constructors are made distinguishable (Kotlin's specialised arrays are all
    called Array in the IR)."""
    cls = tc.__class__.__name__
    if cls == "SpecializedArrayType":
        return "SArray"
    return tc.name


def snapshot(t, depth=0):
    """Deep structural snapshot of a type object including the supertypes cached inside it (for immutability checks)."""
    if t is None:
        return None
    if depth > 12:
        return "..."
    if isinstance(t, tp.WildCardType):
        return ["W", t.variance.value, snapshot(t.bound, depth + 1)]
    if isinstance(t, tp.TypeParameter):
        return ["V", t.name, t.variance.value, snapshot(t.bound, depth + 1)]
    if isinstance(t, tp.ParameterizedType):
        return ["P", t.name, [snapshot(a, depth + 1) for a in t.type_args], [snapshot(s, depth + 1) for s in t.supertypes],
                snapshot(t.t_constructor, depth + 1)]
    if isinstance(t, tp.TypeConstructor):
        return ["K", t.name, [snapshot(p, depth + 1) for p in t.type_parameters], [snapshot(s, depth + 1) for s in t.supertypes]]
    if isinstance(t, tp.Builtin):
        return ["B", t.__class__.__name__, getattr(t, "primitive", False)]
    if isinstance(t, tp.SimpleClassifier):
        return ["S", t.name, [snapshot(s, depth + 1) for s in t.supertypes]]
    return ["?", str(t)]


def emit_chunks(items, outprefix, chunk, key="cases"):
    files, k = [], 0
    for i in range(0, len(items), chunk):
        path = "%s.%d.json" % (outprefix, k)
        json.dump({key: items[i:i + chunk]}, open(path, "w"), separators=(",", ":"))
        files.append(path)
        k += 1
    return files


class ChoiceOracle:
    """Replacement for src.utils.random that enumerates all outcomes of the random choices made by a function
    (depth-first over the choice tree) while the tree is small, then falls back to seeded sampling."""

    def __init__(self, seed=0, max_leaves=2000):
        self.r = _pyrandom.Random(seed)
        self.prefix = []
        self.pos = 0
        self.trail = []          # (chosen index, number of alternatives) along the current run
        self.sampling = False
        self.max_leaves = max_leaves

    # -- protocol used by run_all
    def _pick(self, n):
        if n <= 1:
            return 0
        if self.sampling:
            return self.r.randrange(n)
        if self.pos < len(self.prefix):
            i = self.prefix[self.pos]
        else:
            i = 0
        self.trail.append((i, n))
        self.pos += 1
        return i

    def run_all(self, fn):
        """Call fn() once per leaf of its choice tree; yields (choices, result or exception)."""
        self.prefix, leaves = [], 0
        while True:
            self.pos, self.trail = 0, []
            try:
                res = fn()
            except Exception as e:  # noqa: BLE001
                res = e
            yield [i for i, _ in self.trail], res
            leaves += 1
            # next prefix: increment the last incrementable choice
            tr = self.trail
            while tr and tr[-1][0] + 1 >= tr[-1][1]:
                tr.pop()
            if not tr:
                return
            if leaves >= self.max_leaves:
                break
            self.prefix = [i for i, _ in tr[:-1]] + [tr[-1][0] + 1]
        # sampling fallback
        self.sampling = True
        for _ in range(self.max_leaves // 4):
            try:
                res = fn()
            except Exception as e:  # noqa: BLE001
                res = e
            yield ["sampled"], res
        self.sampling = False

    # -- the RandomUtils interface used by hephaestus
    def bool(self, prob=0.5):
        return self._pick(2) == 1

    def integer(self, min_int=0, max_int=10):
        return min_int + self._pick(max_int - min_int + 1)

    def choice(self, choices):
        choices = list(choices)
        return choices[self._pick(len(choices))]

    def sample(self, choices, k=None):
        choices = list(choices)
        k = k or self.integer(0, len(choices))
        out = []
        pool = list(choices)
        for _ in range(k):
            out.append(pool.pop(self._pick(len(pool))))
        return out

    def shuffle(self, ll):
        return ll

    def word(self):
        return "w%d" % self.r.randrange(10 ** 6)

    def caps(self, length=1, blacklist=None):
        return "T%d" % self.r.randrange(10 ** 6)

    def range(self, from_value, to_value):
        return range(0, self.integer(from_value, to_value))

    def str(self, length=5):
        return "s"

    def char(self):
        return "c"
