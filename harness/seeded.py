#!/usr/bin/env python3
"""Confirm a seeded fault delivered by a sub-agent and run the registered check against it.

  seeded.py import <pid> <srcdir> <name>     confirm (scratch worktree: tests pass with patch, demo fails with / passes without)
                                            and store under /verif/seeded/<name>/
  seeded.py run <name> [--tier quick]       apply patch to /repo, run ./check <pid>, revert; records the outcome in meta.json
"""
import json
import os
import shutil
import subprocess
import sys
import tempfile
import time

VERIF = os.path.dirname(os.path.dirname(os.path.abspath(__file__)))
SEEDED = os.path.join(VERIF, "seeded")
PY = "/venv/bin/python"


def sh(cmd, cwd=None, timeout=3600, env=None):
    p = subprocess.run(cmd, cwd=cwd, shell=isinstance(cmd, str), stdout=subprocess.PIPE, stderr=subprocess.STDOUT, text=True,
                       timeout=timeout, env=env)
    return p.returncode, p.stdout


def imp(pid, src, name):
    wt = tempfile.mkdtemp(prefix="seedwt_")
    os.rmdir(wt)
    rc, out = sh(["git", "-C", "/repo", "worktree", "add", "--detach", wt, "HEAD"])
    assert rc == 0, out
    res = {}
    try:
        demo = os.path.join(src, "demo.py")
        env = dict(os.environ, PYTHONHASHSEED="0", PYTHONDONTWRITEBYTECODE="1")
        env.pop("HEPHAESTUS_VERIF", None)
        rc0, o0 = sh([PY, demo], cwd=wt, env=env, timeout=1800)
        rc, out = sh(["git", "apply", os.path.join(src, "patch.diff")], cwd=wt)
        assert rc == 0, "patch does not apply: " + out
        rct, ot = sh([PY, "-m", "pytest", "-q", "-p", "no:cacheprovider", "tests"], cwd=wt, env=env)
        rc1, o1 = sh([PY, demo], cwd=wt, env=env, timeout=1800)
        res = {"demo_clean_rc": rc0, "demo_patched_rc": rc1, "tests_patched": ot.strip().splitlines()[-1]}
        ok = rc0 == 0 and rc1 != 0 and rct == 0 and "161 passed" in ot
    finally:
        sh(["git", "-C", "/repo", "worktree", "remove", "--force", wt])
    print(name, "confirmed" if ok else "NOT CONFIRMED", res)
    if not ok:
        return 1
    dst = os.path.join(SEEDED, name)
    os.makedirs(dst, exist_ok=True)
    for f in ("patch.diff", "demo.py"):
        shutil.copy(os.path.join(src, f), os.path.join(dst, f))
    meta = json.load(open(os.path.join(src, "meta.json")))
    meta["property"] = pid
    meta["confirmed"] = dict(res, at_repo_commit=sh(["git", "-C", "/repo", "log", "--format=%h", "-1"])[1].strip(),
                             ran="scratch worktree: demo on clean tree, git apply, pytest tests (161 passed), demo on patched tree")
    json.dump(meta, open(os.path.join(dst, "meta.json"), "w"), indent=1)
    return 0


def run(name, tier="quick", pid=None):
    dst = os.path.join(SEEDED, name)
    meta = json.load(open(os.path.join(dst, "meta.json")))
    pid = pid or meta["property"]
    # the patch is applied in a scratch worktree of /repo and the registered check is pointed at it (VERIF_REPO), so that /repo
    # itself - and anything else running against it - is not disturbed
    wt = tempfile.mkdtemp(prefix="seedrun_")
    os.rmdir(wt)
    rc, out = sh(["git", "-C", "/repo", "worktree", "add", "--detach", wt, "HEAD"])
    assert rc == 0, out
    t0 = time.time()
    try:
        rc, out = sh(["git", "apply", os.path.join(dst, "patch.diff")], cwd=wt)
        assert rc == 0, out
        rc, out = sh([os.path.join(VERIF, "check"), pid, "--tier", tier], cwd=VERIF, timeout=7200, env=dict(os.environ, VERIF_REPO=wt))
    finally:
        sh(["git", "-C", "/repo", "worktree", "remove", "--force", wt])
    viol = [l for l in out.splitlines() if l.startswith("VIOLATION")]
    keys = sorted({l.split("clause/key:")[1].split()[0] for l in out.splitlines() if "clause/key:" in l})
    outcome = "detected" if rc == 1 and viol else ("machinery-failure" if rc == 2 else "missed")
    meta.setdefault("checks", {})["%s/%s" % (pid, tier)] = {"outcome": outcome, "rc": rc, "violations": len(viol), "keys": keys[:6],
                                                          "wall_s": round(time.time() - t0)}
    json.dump(meta, open(os.path.join(dst, "meta.json"), "w"), indent=1)
    print("%s: %s by ./check %s --tier %s (rc=%d, %d VIOLATION lines, keys %s, %ds)" % (name, outcome, pid, tier, rc, len(viol), keys[:4],
                                                                                     time.time() - t0))
    if outcome != "detected":
        print(out[-1500:])
    # evidence files were rewritten by the run on the mutated tree: restore the committed ones
    sh(["git", "-C", VERIF, "checkout", "--", "evidence"])
    return 0


if __name__ == "__main__":
    if sys.argv[1] == "import":
        sys.exit(imp(sys.argv[2], sys.argv[3], sys.argv[4]))
    tier = sys.argv[sys.argv.index("--tier") + 1] if "--tier" in sys.argv else "quick"
    pid = sys.argv[sys.argv.index("--pid") + 1] if "--pid" in sys.argv else None
    sys.exit(run(sys.argv[2], tier, pid))
