"""Common machinery: running TLC, running drivers against /repo, known findings, evidence.

Everything that *decides* a property is a TLC run on a module under /verif/spec.  The code here
only moves data around (spec -> cases -> real code -> trace -> spec) and turns TLC's verdicts
into exit status and evidence.
"""
import json
import os
import re
import shutil
import subprocess
import sys
import tempfile
import threading
import time
import hashlib
from concurrent.futures import ThreadPoolExecutor

VERIF = os.path.dirname(os.path.dirname(os.path.abspath(__file__)))
SPEC = os.path.join(VERIF, "spec")
REPO = os.environ.get("VERIF_REPO", "/repo")
PY = os.environ.get("VERIF_PY", "/venv/bin/python")
GUARD = "HEPHAESTUS_VERIF"
NCPU = int(os.environ.get("VERIF_CPUS", str(os.cpu_count() or 4)))


class MachineryError(Exception):
    """The checking machinery itself failed (exit status 2, never a property verdict)."""


# ----------------------------------------------------------------------------------------------
# scratch space (outside /repo and /verif, removed at exit)
_SCRATCH = None


def scratch():
    global _SCRATCH
    if _SCRATCH is None:
        base = os.environ.get("VERIF_SCRATCH")
        if base:
            os.makedirs(base, exist_ok=True)
        _SCRATCH = tempfile.mkdtemp(prefix="hverif_", dir=base or None)
    return _SCRATCH


def cleanup():
    global _SCRATCH
    if _SCRATCH and os.path.isdir(_SCRATCH) and not os.environ.get("VERIF_KEEP"):
        shutil.rmtree(_SCRATCH, ignore_errors=True)
    _SCRATCH = None


def subdir(name):
    d = os.path.join(scratch(), name)
    os.makedirs(d, exist_ok=True)
    return d


# ----------------------------------------------------------------------------------------------
# TLC

_RE_STATES = re.compile(r"(\d+) states generated, (\d+) distinct states found, (\d+) states left")
_RE_SIMSTATES = re.compile(r"The number of states generated: (\d+)")
_RE_DEPTH = re.compile(r"The depth of the complete state graph search is (\d+)")
_RE_COV = re.compile(r"^<(\w+) line (\d+), col (\d+) to line (\d+), col (\d+) of module (\w+)>: (\d+):(\d+)")


class TLCResult:
    def __init__(self, out, rc, wall):
        self.out = out
        self.rc = rc
        self.wall = wall
        self.generated = 0
        self.distinct = 0
        self.depth = 0
        self.json = []          # values printed with PrintT(ToJson(..))
        self.coverage = {}      # action name -> (distinct, generated)
        self.error_lines = []
        for line in out.splitlines():
            if line.startswith('"') and line.endswith('"') and len(line) > 1:
                try:
                    inner = json.loads(line)
                    if inner[:1] in "{[":
                        self.json.append(json.loads(inner))
                    continue
                except ValueError:
                    pass
            m = _RE_STATES.search(line)
            if m:
                self.generated, self.distinct = int(m.group(1)), int(m.group(2))
                continue
            m = _RE_SIMSTATES.search(line)
            if m:
                self.generated = self.distinct = int(m.group(1))
                continue
            m = _RE_DEPTH.search(line)
            if m:
                self.depth = int(m.group(1))
                continue
            m = _RE_COV.match(line)
            if m:
                self.coverage[m.group(1)] = (int(m.group(7)), int(m.group(8)))
                continue
            if line.startswith("Error:") or "Exception" in line or "is violated" in line \
                    or "Parsing or semantic analysis failed" in line or line.startswith("***Parse Error***"):
                self.error_lines.append(line)

    @property
    def ok(self):
        return self.rc == 0 and not self.error_lines

    def invariant_violated(self):
        return [l for l in self.error_lines if "is violated" in l]


def tlc(module, cfg_text, env=None, workers=1, timeout=1800, simulate=None, depth=None, seed=None,
        coverage=False, name=None, extra=(), deque=False, mem="4g"):
    """Run TLC on spec/<module>.tla with the given cfg text in a private scratch directory."""
    d = tempfile.mkdtemp(prefix=(name or module) + "_", dir=scratch())
    for f in os.listdir(SPEC):
        if f.endswith(".tla"):
            os.symlink(os.path.join(SPEC, f), os.path.join(d, f))
    with open(os.path.join(d, module + ".cfg"), "w") as fh:
        fh.write(cfg_text)
    cmd = ["java", "-XX:+UseParallelGC", "-XX:ParallelGCThreads=2", "-XX:CICompilerCount=2", "-XX:TieredStopAtLevel=4", "-Xmx" + mem, "-Xss64m"]
    if deque:
        cmd.append("-Dtlc2.tool.queue.IStateQueue=StateDeque")
    cmd.append("-Djava.io.tmpdir=" + d)      # TLC leaves an empty tlc-<n> directory per run in the JVM's temporary directory: keep it in the scratch
    cmd += ["-cp", "/opt/veriftools/tla/tla2tools.jar:/opt/veriftools/tla/CommunityModules-deps.jar", "tlc2.TLC",
            "-workers", str(workers), "-metadir", os.path.join(d, "meta"), "-noGenerateSpecTE",
            "-config", module + ".cfg"]
    if simulate:
        cmd += ["-simulate", simulate]
    if depth:
        cmd += ["-depth", str(depth)]
    if seed is not None:
        cmd += ["-seed", str(seed)]
    if coverage:
        cmd += ["-coverage", "1"]
    cmd += list(extra) + [module + ".tla"]
    e = dict(os.environ)
    e.pop("JAVA_TOOL_OPTIONS", None)
    if env:
        e.update({k: str(v) for k, v in env.items()})
    t0 = time.time()
    try:
        p = subprocess.run(cmd, cwd=d, env=e, stdout=subprocess.PIPE, stderr=subprocess.STDOUT,
                           timeout=timeout, text=True, errors="replace")
    except subprocess.TimeoutExpired as ex:
        raise MachineryError("TLC timed out after %ss on %s" % (timeout, module)) from ex
    res = TLCResult(p.stdout, p.returncode, time.time() - t0)
    res.dir = d
    if not os.environ.get("VERIF_KEEP"):
        shutil.rmtree(os.path.join(d, "meta"), ignore_errors=True)
    return res


def tlc_must(module, cfg_text, **kw):
    """Run TLC; anything but a clean run is a machinery failure (verdicts travel as JSON lines)."""
    r = tlc(module, cfg_text, **kw)
    if not r.ok:
        tail = "\n".join(r.out.splitlines()[-40:])
        raise MachineryError("TLC failed on %s (rc=%s):\n%s" % (module, r.rc, tail))
    return r


def parallel(fn, items, n=None):
    n = n or NCPU
    with ThreadPoolExecutor(max_workers=n) as ex:
        return list(ex.map(fn, items))


# ----------------------------------------------------------------------------------------------
# running real code

SHIM = os.path.join(VERIF, "harness", "native", "libchunkcache.so")


_SHIM_LOCK = threading.Lock()
_SHIM_OK = {}


def _shim_loads():
    """the shim must be loadable by the dynamic linker (a half-written file would make every driver fail with rc 127)"""
    try:
        return subprocess.run(["/bin/true"], env=dict(os.environ, LD_PRELOAD=SHIM), stdout=subprocess.PIPE, stderr=subprocess.PIPE).stderr == b""
    except OSError:
        return False


def build_shim(verbose=False):
    """Compile the LD_PRELOAD performance shim (harness/native/chunkcache.c); the drivers work without it, only slower."""
    with _SHIM_LOCK:          # checks start their drivers from a thread pool: build once, never two compilers on one temporary file
        if "ok" not in _SHIM_OK:
            _SHIM_OK["ok"] = _build_shim(verbose)
        return _SHIM_OK["ok"]


def _build_shim(verbose=False):
    src = os.path.join(VERIF, "harness", "native", "chunkcache.c")
    if os.path.exists(SHIM) and os.path.getmtime(SHIM) >= os.path.getmtime(src) and _shim_loads():
        return True
    for cc in ("gcc", "clang", "cc"):
        try:
            fd, tmp = tempfile.mkstemp(prefix="libchunkcache.", suffix=".tmp", dir=os.path.dirname(SHIM))
            os.close(fd)
            p = subprocess.run([cc, "-O2", "-shared", "-fPIC", "-o", tmp, src, "-ldl"], stdout=subprocess.PIPE, stderr=subprocess.STDOUT, text=True)
            if p.returncode == 0:
                os.chmod(tmp, 0o755)
                os.replace(tmp, SHIM)
                if not _shim_loads():
                    continue
                if verbose:
                    print("setup: built %s with %s" % (os.path.basename(SHIM), cc))
                return True
        except OSError:
            continue
    if verbose:
        print("setup: could not build the performance shim; drivers will run without it (slower)")
    return False


def driver_env():
    e = dict(os.environ)
    e["PYTHONPATH"] = REPO + os.pathsep + os.path.join(VERIF, "harness")
    e["PYTHONHASHSEED"] = "0"
    e["PYTHONDONTWRITEBYTECODE"] = "1"
    if build_shim():
        e["LD_PRELOAD"] = SHIM
    return e

def run_driver(script, args=(), stdin_obj=None, timeout=3600, env=None, python=None, hooks=True):
    """Run harness/drivers/<script> under the repository's interpreter against REPO's working tree."""
    e = driver_env()
    if hooks:
        e[GUARD] = "1"
    else:
        e.pop(GUARD, None)
    if env:
        e.update({k: str(v) for k, v in env.items()})
    cmd = [python or PY, os.path.join(VERIF, "harness", "drivers", script)] + [str(a) for a in args]
    p = subprocess.run(cmd, cwd=scratch(), env=e, input=(json.dumps(stdin_obj) if stdin_obj is not None else None),
                       stdout=subprocess.PIPE, stderr=subprocess.PIPE, text=True, timeout=timeout)
    if p.returncode != 0:
        raise MachineryError("driver %s %s failed rc=%s\n%s" % (script, list(args), p.returncode, p.stderr[-4000:]))
    return p.stdout


def write_json(path, obj):
    with open(path, "w") as fh:
        json.dump(obj, fh, separators=(",", ":"))
    return path


def read_json(path):
    with open(path) as fh:
        return json.load(fh)


def chunks(seq, n):
    return [seq[i:i + n] for i in range(0, len(seq), n)]


def digest(obj):
    return hashlib.sha1(json.dumps(obj, sort_keys=True, default=str).encode()).hexdigest()[:12]


# ----------------------------------------------------------------------------------------------
# known findings, violations, evidence

def load_findings(pid):
    path = os.path.join(VERIF, "known_findings.json")
    if not os.path.exists(path):
        return []
    return [f for f in read_json(path)["findings"] if f["property"] == pid]


class Verdict:
    """Collects violations (each with a finding key computed by the spec), separates known ones."""

    def __init__(self, pid):
        self.pid = pid
        self.open = {f["key"]: f for f in load_findings(pid) if f["status"] == "open"}
        self.known_hits = {}
        self.violations = []

    def add(self, key, case, what=""):
        """key: the finding key computed by the validating spec for this violation."""
        # the same clause and shape observed on a call the generator issued itself (EV) is the same finding
        base = key[3:] if key.startswith("EV:") else key
        if key in self.open or base in self.open:
            self.known_hits.setdefault(key if key in self.open else base, []).append(case)
        else:
            self.violations.append({"key": key, "what": what, "case": case})

    def finish(self):
        """Print KNOWN-FINDING / VIOLATION lines, store replays; return exit status."""
        for key, cases in sorted(self.known_hits.items()):
            print("KNOWN-FINDING: property=%s %s [%d case(s) in this run; key=%s]" % (
                self.pid, self.open[key]["what"], len(cases), key))
        seen = set()
        if self.violations:
            counts = {}
            for v in self.violations:
                counts[v["key"]] = counts.get(v["key"], 0) + 1
            print("violations by clause/key: " + ", ".join("%s x%d" % kv for kv in sorted(counts.items())))
        # store a few per key so that every kind of violation has a replay
        order, perkey = [], {}
        for v in self.violations:
            perkey[v["key"]] = perkey.get(v["key"], 0) + 1
            if perkey[v["key"]] <= 4:
                order.append(v)
        for v in order[:24]:
            dg = digest(v)
            if dg in seen:
                continue
            seen.add(dg)
            d = os.path.join(VERIF, "replays", self.pid, dg)
            os.makedirs(d, exist_ok=True)
            write_json(os.path.join(d, "case.json"), v)
            print("VIOLATION property=%s replay=%s" % (self.pid, d))
            print("  clause/key: %s  %s" % (v["key"], v["what"]))
        if len(self.violations) > len(order[:24]):
            print("  ... %d further violations not stored" % (len(self.violations) - len(order[:24])))
        return 1 if self.violations else 0


def write_evidence(pid, tier, seed, level, coverage, wall, violations, assumptions=()):
    os.makedirs(os.path.join(VERIF, "evidence"), exist_ok=True)
    ev = {"property_id": pid, "tier": tier, "seed": int(seed), "level": level, "coverage": coverage,
          "assumptions": list(assumptions), "wall_s": round(wall, 2), "violations": int(violations)}
    write_json(os.path.join(VERIF, "evidence", pid + ".json"), ev)
    return ev


def cfg(spec=None, init=None, next_=None, invariants=(), constraints=(), constants=None, props=(),
        postcondition=None, view=None, deadlock=False):
    lines = []
    if spec:
        lines.append("SPECIFICATION " + spec)
    if init:
        lines.append("INIT " + init)
    if next_:
        lines.append("NEXT " + next_)
    for i in invariants:
        lines.append("INVARIANT " + i)
    for c in constraints:
        lines.append("CONSTRAINT " + c)
    for p in props:
        lines.append("PROPERTY " + p)
    if postcondition:
        lines.append("POSTCONDITION " + postcondition)
    if view:
        lines.append("VIEW " + view)
    if constants:
        lines.append("CONSTANTS")
        for k, v in constants.items():
            lines.append("  %s = %s" % (k, v))
    lines.append("CHECK_DEADLOCK " + ("TRUE" if deadlock else "FALSE"))
    return "\n".join(lines) + "\n"


def tla(v):
    """Python value -> TLA+ literal for cfg constants."""
    if isinstance(v, bool):
        return "TRUE" if v else "FALSE"
    if isinstance(v, int):
        return str(v)
    if isinstance(v, str):
        return '"%s"' % v
    if isinstance(v, (set, frozenset)):
        return "{" + ", ".join(tla(x) for x in sorted(v, key=str)) + "}"
    if isinstance(v, (list, tuple)):
        return "<<" + ", ".join(tla(x) for x in v) + ">>"
    raise TypeError(v)
