"""Declaration surface of an emitted source text (C12, trusted base): a lexer and a header *splitter*.

Nothing here knows what a header should contain.  The text is cut into tokens; declaration headers are located by their
introducing keyword (Kotlin / Scala) or by their position at the start of a line (Java / Groovy) and split - by bracket matching
only - into segments that are handed to TLC as token lists:

  class   {kw, name, mods[], tps[[..]], fields[[..]], sups[[..]] , ext[[..]], impl[[..]]}
  fun     {name, mods[], tps[[..]], params[[..]] (default values cut off), ret[..], hasbody}
  var     {name, mods[], type[..]}                 (local / top-level variables; Kotlin/Scala constructor fields are in class.fields)
  field   {name, mods[], type[..]}                 (Java / Groovy class members)

What the token lists must be for a given program is stated in spec/HSurface.tla (type syntax of the four languages, modifiers,
bounds, inheritance clauses) and compared there.
"""
import re

import scan

TOK = re.compile(r"[A-Za-z_]\w*|\d+(?:\.\d+)?\w*|->|=>|::|==|!=|<=|>=|&&|\|\||\.\.\.|\n|[^\s]")
TOK_SCALA = re.compile(r"[A-Za-z_]\w*|\d+(?:\.\d+)?\w*|->|=>|<:|>:|::|==|!=|<=|>=|&&|\|\||\.\.\.|\n|[^\s]")
OPEN = {"(": ")", "[": "]", "{": "}"}
CLOSE = {v: k for k, v in OPEN.items()}
IDENT = re.compile(r"[A-Za-z_]\w*$")


def lex(text, lang=None):
    return (TOK_SCALA if lang == "scala" else TOK).findall(scan.blank_literals(text))


def is_ident(t):
    return bool(IDENT.match(t))


def match(toks, i, angle=False):
    """index of the bracket closing the one at toks[i]; with angle=True '<' '>' nest too (type context)"""
    o = toks[i]
    c = ">" if o == "<" else OPEN[o]
    depth = 0
    j = i
    stack = []
    while j < len(toks):
        t = toks[j]
        if t in OPEN or (angle and t == "<" and not any(s in OPEN for s in stack)):
            stack.append(t)
        elif t in CLOSE or (angle and t == ">" and stack and stack[-1] == "<"):
            if t in CLOSE:
                while stack and stack[-1] == "<":      # an unmatched '<' inside brackets was a comparison
                    stack.pop()
            if stack:
                stack.pop()
            if not stack:
                return j
        j += 1
    return len(toks) - 1


def split_top(toks, seps=(",",), angle=True, stop=()):
    """split at separators that are outside every bracket; '<' '>' nest only while no ( [ { is open; newlines are dropped"""
    out, cur, stack = [], [], []
    for t in toks:
        if t == "\n":
            continue
        if t in OPEN or (angle and t == "<" and not any(s in OPEN for s in stack)):
            stack.append(t)
        elif t in CLOSE:
            while stack and stack[-1] == "<":
                stack.pop()
            if stack:
                stack.pop()
        elif angle and t == ">" and stack and stack[-1] == "<":
            stack.pop()
        if not stack and t in seps:
            out.append(cur)
            cur = []
        else:
            cur.append(t)
    if cur or out:
        out.append(cur)
    return out


def until_top(toks, i, stops, angle=True):
    """tokens from i up to (not including) the first stop token outside every bracket; returns (tokens, index of the stop)"""
    stack, out = [], []
    j = i
    while j < len(toks):
        t = toks[j]
        if not stack and t in stops:
            break
        if t in OPEN or (angle and t == "<" and not any(s in OPEN for s in stack)):
            stack.append(t)
        elif t in CLOSE:
            while stack and stack[-1] == "<":
                stack.pop()
            if not stack:
                break
            stack.pop()
        elif angle and t == ">" and stack and stack[-1] == "<":
            stack.pop()
        if t != "\n":
            out.append(t)
        j += 1
    return out, j


def cut_default(p, angle=True):
    """a parameter without its default value"""
    return until_top(p, 0, ("=",), angle)[0]


def mods_before(toks, i):
    """identifier tokens between the start of the line and position i"""
    out = []
    j = i - 1
    while j >= 0 and toks[j] != "\n" and is_ident(toks[j]):
        out.append(toks[j])
        j -= 1
    return list(reversed(out)), j


# ---------------------------------------------------------------------------------------------------------------------------
def kotlin_scala(text, lang):
    toks = lex(text, lang)
    ang = lang == "kotlin"
    tp_open = "<" if ang else "["
    classes, funs, vars_ = [], [], []
    consumed = []          # token ranges of constructor field lists (their val/var are fields, not variables)
    ckw = ("class", "interface") if ang else ("class", "trait")
    fkw = "fun" if ang else "def"
    n = len(toks)
    for i, t in enumerate(toks):
        if t in ckw and i + 1 < n and is_ident(toks[i + 1]) and (i == 0 or toks[i - 1] not in (".", "::")):
            mods, _ = mods_before(toks, i)
            if ang and t == "interface" and mods and mods[-1] == "fun":
                pass
            j = i + 2
            c = {"kw": t, "name": toks[i + 1], "mods": mods, "tps": [], "fields": [], "sups": []}
            if j < n and toks[j] == tp_open:
                e = match(toks, j, angle=ang)
                c["tps"] = split_top(toks[j + 1:e], angle=ang)
                j = e + 1
            if j < n and toks[j] == "(":
                e = match(toks, j)
                c["fields"] = [cut_default(p, ang) for p in split_top(toks[j + 1:e], angle=ang)]
                consumed.append((j, e))
                j = e + 1
            if j < n and toks[j] in (":", "extends"):
                seg, j = until_top(toks, j + 1, ("{", "\n"), angle=ang)
                c["sups"] = [until_top(s, 0, ("(",), angle=ang)[0] for s in split_top(seg, angle=ang)]
            classes.append(c)
        elif t == fkw and i + 1 < n and (is_ident(toks[i + 1]) or (ang and toks[i + 1] == "<")) and toks[i + 1] not in ckw:
            mods, _ = mods_before(toks, i)
            j = i + 1
            f = {"mods": mods, "tps": [], "params": [], "ret": []}
            if ang and toks[j] == "<":
                e = match(toks, j, angle=True)
                f["tps"] = split_top(toks[j + 1:e], angle=True)
                j = e + 1
            if j >= n or not is_ident(toks[j]):
                continue
            f["name"] = toks[j]
            j += 1
            if not ang and j < n and toks[j] == "[":
                e = match(toks, j)
                f["tps"] = split_top(toks[j + 1:e], angle=False)
                j = e + 1
            if j >= n or toks[j] != "(":
                continue
            e = match(toks, j)
            f["params"] = [cut_default(p, ang) for p in split_top(toks[j + 1:e], angle=ang)]
            j = e + 1
            if j < n and toks[j] == ":":
                f["ret"], j = until_top(toks, j + 1, ("{", "\n", "="), angle=ang)
            k = j
            while k < n and toks[k] == "\n":
                k += 1
            f["hasbody"] = (j < n and toks[j] in ("{", "=")) or (k < n and toks[k] == "{" and toks[j] == "\n" and not ang) or \
                           (ang and k < n and toks[k] == "{")
            funs.append(f)
        elif t in ("val", "var") and i + 2 < n and is_ident(toks[i + 1]) and toks[i + 2] in (":", "=") and \
                not any(a < i < b for a, b in consumed):
            v = {"name": toks[i + 1], "mods": [t], "type": []}
            if toks[i + 2] == ":":
                v["type"], _ = until_top(toks, i + 3, ("=", "\n"), angle=ang)
            vars_.append(v)
    return {"classes": classes, "funs": funs, "vars": vars_, "fields": []}


# ---------------------------------------------------------------------------------------------------------------------------
JKW = {"return", "new", "throw", "else", "if", "while", "for", "package", "import", "assert"}
FUNIF = re.compile(r"\binterface\s+Function\d+<[^{]*\{[^}]*\}")


def java_groovy(text, lang):
    # the helper interfaces Function0..N that the translator appends are not declarations of the program
    toks = lex(FUNIF.sub("", scan.blank_literals(text)))
    n = len(toks)
    classes, funs, vars_, fields = [], [], [], []
    # statements start after a newline and - the translator flattens the arguments of a super call onto one line - after ; { }
    starts = [0] + [i + 1 for i, t in enumerate(toks) if t in ("\n", ";", "{", "}")]
    for s in starts:
        if s >= n or toks[s] == "\n":
            continue
        pre, j = until_top(toks, s, ("(", "=", ";", "{", "\n", "->"), angle=True)
        stop = toks[j] if j < n else "\n"
        if not pre:
            continue
        kwpos = [k for k, t in enumerate(pre) if t in ("class", "interface", "trait")]
        if kwpos and all(is_ident(t) for t in pre[:kwpos[0]]):
            k = kwpos[0]
            if k + 1 >= len(pre):
                continue
            c = {"kw": pre[k], "name": pre[k + 1], "mods": pre[:k], "tps": [], "fields": [], "sups": [], "ext": [], "impl": []}
            rest = pre[k + 2:]
            if rest and rest[0] == "<":
                e = match(rest, 0, angle=True)
                c["tps"] = split_top(rest[1:e])
                rest = rest[e + 1:]
            cur = None
            seg = {"extends": [], "implements": []}
            for t in rest:
                if t in seg:
                    cur = t
                elif cur:
                    seg[cur].append(t)
            c["ext"] = split_top(seg["extends"])
            c["impl"] = split_top(seg["implements"])
            classes.append(c)
            continue
        if pre[0] in JKW or pre[0] in ("super", "this"):
            continue
        words = list(pre)
        mods = []
        while words and words[0] in ("static", "public", "final", "abstract", "private", "protected"):
            mods.append(words.pop(0))
        tps = []
        if words and words[0] == "<":
            e = match(words, 0, angle=True)
            tps = split_top(words[1:e])
            words = words[e + 1:]
        if len(words) < 2 or not is_ident(words[-1]):
            continue
        name = words[-1]
        typ = words[:-1]
        if typ[-2:] == ["Main", "."]:
            typ = typ[:-2]
        if not typ or typ[-1] == "." or any(t in JKW for t in typ):
            continue
        if stop == "(":
            e = match(toks, j)
            nxt = e + 1
            while nxt < n and toks[nxt] == "\n" and lang == "groovy" and False:
                nxt += 1
            after = toks[nxt] if nxt < n else "\n"
            if after not in ("{", ";", "\n"):
                continue            # an expression statement such as  `T x (..)`  cannot occur; a call has no type in front
            params = [cut_default(p) for p in split_top(toks[j + 1:e])]
            funs.append({"name": name, "mods": mods, "tps": tps, "params": params, "ret": typ, "hasbody": after == "{"})
        elif stop == "=":
            vars_.append({"name": name, "mods": mods, "type": [] if typ in (["var"], ["def"]) else typ})
        elif stop in (";", "\n") and "public" in mods:
            fields.append({"name": name, "mods": mods, "type": typ})
    return {"classes": classes, "funs": funs, "vars": vars_, "fields": fields}


def surface(lang, text):
    return kotlin_scala(text, lang) if lang in ("kotlin", "scala") else java_groovy(text, lang)
