---------------------------- MODULE TraceC08 ----------------------------
EXTENDS Types, Json, IOUtils, TLCExt
Data == JsonDeserialize(IOEnv.TRACE_FILE)
CT == Data.ct
Q == Data.q
SubT(S, T) == Sub(CT, S, T) \/ T = TopT
RECURSIVE Mentions(_, _)
Mentions(t, x) == IF t.k = "V" THEN t.n = x ELSE \E i \in DOMAIN t.a : Mentions(t.a[i], x)
InstOK(q) ==
  LET ps == CT[q.cls].tp  r == q.res
      m == [x \in {ps[i].n : i \in DOMAIN ps} |-> r.a[CHOOSE i \in DOMAIN ps : ps[i].n = x]]
      plain(a) == IF a.k = "W" /\ a.a # <<>> THEN a.a[1] ELSE a
      mm == [x \in DOMAIN m |-> plain(m[x])]
  IN /\ q.exc = ""
     /\ r.k = "C" /\ Len(r.a) = Len(ps)
     /\ \A i \in DOMAIN ps :
          LET a == r.a[i] IN
          /\ a.k \notin {"K", "P"}
          /\ (ps[i].b # <<>> /\ (a.k # "W" \/ a.n = "out")) => SubT(plain(a), Subst(ps[i].b[1], mm))
          /\ a.k = "W" => /\ q.vc # "none"
                          /\ (ps[i].v = "out" => a.n = "out") /\ (ps[i].v = "in" => a.n = "in")
                          /\ ~\E j \in DOMAIN ps : j # i /\ ps[j].b # <<>> /\ Mentions(ps[j].b[1], ps[i].n)
Bad == {i \in DOMAIN Q : ~InstOK(Q[i])}
ASSUME PrintT(ToJson([n |-> Cardinality(Bad), w |-> {Q[i] : i \in Bad}]))
VARIABLE c
Spec == c = 1 /\ [][UNCHANGED c]_c
=======================================================================
