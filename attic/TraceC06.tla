---------------------------- MODULE TraceC06 ----------------------------
EXTENDS Types, Json, IOUtils, TLCExt
Data == JsonDeserialize(IOEnv.TRACE_FILE)
Cases == Data.cases
Bad(cs) == LET CT == cs.ct  U == cs.u  R == {<<p[1],p[2]>> : p \in {cs.rel[i] : i \in DOMAIN cs.rel}}
           IN {<<i,j>> \in (DOMAIN U) \X (DOMAIN U) : (<<i,j>> \in R) # Sub(CT, U[i], U[j])}
ASSUME \A c \in DOMAIN Cases : LET b == Bad(Cases[c]) IN PrintT(<<"CASE", c, Cardinality(b), IF b = {} THEN <<>> ELSE CHOOSE x \in b : TRUE>>)
VARIABLE c
Spec == c = 1 /\ [][UNCHANGED c]_c
=======================================================================
