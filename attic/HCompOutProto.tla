---------------------------- MODULE HCompOutProto ----------------------------
\* Pre-study prototype (NOT framework code): diagnostic chunk streams and their ground truth.
EXTENDS Naturals, Sequences, FiniteSets, TLC, Json, IOUtils
Files == {"f1", "f2"}
Chunk == [k : {"err", "warn"}, f : Files, m : {"m1", "m2"}] \cup [k : {"note", "summary", "crash"}, f : {"-"}, m : {"-"}]
VARIABLE cs
MaxLen == 3
GInit == cs = <<>>
GNext == Len(cs) < MaxLen /\ \E c \in Chunk : cs' = Append(cs, c)
GSpec == GInit /\ [][GNext]_cs
GEmit == PrintT(ToJson(cs))
\* ground truth
IsCrash(s) == \E j \in DOMAIN s : s[j].k = "crash"
FailedFiles(s) == {s[j].f : j \in {j \in DOMAIN s : s[j].k = "err"}}
ErrCount(s, f) == Cardinality({j \in DOMAIN s : s[j].k = "err" /\ s[j].f = f})
\* V
Runs == JsonDeserialize(IOEnv.TRACE_FILE).runs
BadRun(r) ==
  IF IsCrash(r.cs) THEN (IF r.crash THEN {} ELSE {"crash-missed"})
  ELSE (IF r.crash THEN {"false-crash"} ELSE {})
       \cup (IF {r.files[j] : j \in DOMAIN r.files} # FailedFiles(r.cs) THEN {"files"} ELSE {})
       \cup {"count" : f \in {f \in FailedFiles(r.cs) : \E j \in DOMAIN r.files : r.files[j] = f /\ r.counts[j] # ErrCount(r.cs, f)}}
Report == [total |-> Len(Runs), bad |-> {<<r.cs, BadRun(r)>> : r \in {Runs[j] : j \in {j \in DOMAIN Runs : BadRun(Runs[j]) # {}}}}]
=======================================================================
