import random; random.seed(12345)
import sys, json
sys.path.insert(0,'/repo'); sys.path.insert(0,'/root/prestudy'); sys.setrecursionlimit(20000)
from src import utils
from src.generators.generator import Generator
from src.ir import types as tp, type_utils as tu
import src.ir.kotlin_types as kt, src.ir.java_types as jt, src.ir.groovy_types as gt, src.ir.scala_types as st
from ser2 import ser_program, ser_t
lang=sys.argv[1]; lo=int(sys.argv[2]); hi=int(sys.argv[3]); out=sys.argv[4]
utils.random.remove_reserved_words(lang)
depth=[0]; rec=[]; seen=set()
def wrapcls(cls):
    if 'is_subtype' not in cls.__dict__: return
    orig=cls.__dict__['is_subtype']
    def w(self, other, _o=orig):
        depth[0]+=1
        try: r=_o(self, other)
        finally: depth[0]-=1
        if depth[0]==0 and r and isinstance(other, tp.Type):
            try:
                k=(json.dumps(ser_t(self),sort_keys=True), json.dumps(ser_t(other),sort_keys=True))
                if k not in seen: seen.add(k); rec.append(k)
            except Exception: pass
        return r
    cls.is_subtype=w
def allsub(c):
    r=[c]
    for s in c.__subclasses__(): r+=allsub(s)
    return r
for c in set(allsub(tp.Type)): wrapcls(c)
orig_fs=tu.find_subtypes; fsrec=[]
def fsw(etype, types, include_self=False, bound=None, concrete_only=False, ignore_variance=False):
    res=orig_fs(etype, types, include_self, bound, concrete_only, ignore_variance)
    if depth[0]==0:
        try: fsrec.append({"t":ser_t(etype),"res":[ser_t(r) for r in res],"co":bool(concrete_only)})
        except Exception: pass
    return res
tu.find_subtypes=fsw
import src.generators.generator as G
progs=[]
for seed in range(lo,hi):
    utils.random.r.seed(seed); utils.random.reset_word_pool(); rec.clear(); seen.clear(); fsrec.clear()
    p=Generator(language=lang).generate()
    d=ser_program(p); d['seed']=seed; d['ev']=[]
    d['q']=[{"s":json.loads(a),"t":json.loads(b)} for a,b in rec]
    d['fs']=list(fsrec)
    progs.append(d)
json.dump({"progs":progs}, open(out,'w'))
print(lang, len(progs), 'positive subtype queries', sum(len(p['q']) for p in progs), 'find_subtypes calls', sum(len(p['fs']) for p in progs))
