import sys, json
sys.path.insert(0,'/repo')
from src.compilers.java import JavaCompiler
from src.compilers.kotlin import KotlinCompiler
from src.compilers.groovy import GroovyCompiler
from src.compilers.scala import ScalaCompiler
lang=sys.argv[3]
EXT={'java':'Main.java','kotlin':'program.kt','groovy':'Main.groovy','scala':'Main.scala'}[lang]
PATH={'f1':'/tmp/tmpab3_x9kq/src/words/'+EXT,'f2':'/tmp/tmpab3_x9kq/src/another/'+EXT}
MSG={'m1':'incompatible types: Foo<? extends Bar> cannot be converted to Baz<String>','m2':"cannot find symbol: 'x' in class A"}
def render(cs):
    out=[]; nerr=0
    if lang=='groovy' and any(c['k']=='err' for c in cs): out.append("org.codehaus.groovy.control.MultipleCompilationErrorsException: startup failed:\n")
    for c in cs:
        if lang=='java':
            if c['k']=='err': out.append(PATH[c['f']]+":12: error: "+MSG[c['m']]+"\n        Foo x = bar;\n                ^\n  symbol:   variable bar\n  location: class Main\n"); nerr+=1
            elif c['k']=='warn': out.append(PATH[c['f']]+":7: warning: [removal] Long(long) in Long has been deprecated\n        new Long(5);\n        ^\n")
            elif c['k']=='note': out.append("Note: "+PATH['f1']+" uses unchecked or unsafe operations.\nNote: Recompile with -Xlint:unchecked for details.\n")
            elif c['k']=='summary': out.append("2 errors\n1 warning\n")
            elif c['k']=='crash': out.append("An exception has occurred in the compiler (17.0.1). Please file a bug.\njava.lang.NullPointerException: Cannot invoke\n\tat jdk.compiler/com.sun.tools.javac.comp.Attr.visitApply(Attr.java:2229)\n")
        elif lang=='kotlin':
            if c['k']=='err': out.append(PATH[c['f']]+":12:9: error: "+MSG[c['m']]+"\n        val x: Foo = bar\n                     ^\n")
            elif c['k']=='warn': out.append(PATH[c['f']]+":7:5: warning: variable 'x' is never used\n    val x = 1\n        ^\n")
            elif c['k']=='note': out.append("warning: some JAR files in the classpath have the Kotlin Runtime library bundled into them\n")
            elif c['k']=='summary': out.append("")
            elif c['k']=='crash': out.append("exception: org.jetbrains.kotlin.backend.common.BackendException: Backend Internal error\n\tat org.jetbrains.kotlin.backend.common.CodegenUtil.reportBackendException(CodegenUtil.kt:239)\n")
        elif lang=='groovy':
            if c['k']=='err': out.append(PATH[c['f']]+": 18: [Static type checking] - "+MSG[c['m']]+"\n @ line 18, column 5.\n       gurgling\n       ^\n\n")
            elif c['k']=='warn': out.append("warning: something about "+PATH[c['f']].replace('.groovy','')+"\n\n")
            elif c['k']=='note': out.append("")
            elif c['k']=='summary': out.append("2 errors\n")
            elif c['k']=='crash': out.append(">>> a serious error occurred: BUG! exception in phase 'instruction selection'\n>>> stacktrace:\nBUG! exception\n\tat org.codehaus.groovy.control.CompilationUnit.doPhaseOperation(CompilationUnit.java:905)\n")
        elif lang=='scala':
            if c['k']=='err': out.append("-- [E007] Type Mismatch Error: "+PATH[c['f']]+":3:17 --------\n3 |  val x: Int = \"a\"\n  |               ^^^\n  |               "+MSG[c['m']].replace('-',' ')+"\n")
            elif c['k']=='warn': out.append("-- Warning: "+PATH[c['f']]+":5:2 -----\n5 |  foo\n  |  ^\n  | unused value\n")
            elif c['k']=='note': out.append("")
            elif c['k']=='summary': out.append("2 errors found\n")
            elif c['k']=='crash': out.append("Exception in thread \"main\" java.lang.AssertionError: assertion failed\n\tat dotty.tools.dotc.core.Types$TypeRef.foo(Types.scala:1)\n")
    return ''.join(out)
C={'java':JavaCompiler,'kotlin':KotlinCompiler,'groovy':GroovyCompiler,'scala':ScalaCompiler}[lang]
inv={v:k for k,v in PATH.items()}
seqs=[]; seen=set()
for line in open(sys.argv[1]):
    line=line.strip()
    if line.startswith('"['):
        s_=json.loads(json.loads(line)); k=json.dumps(s_)
        if k not in seen: seen.add(k); seqs.append(s_)
runs=[]
for cs in seqs:
    c=C('/tmp/tmpab3_x9kq/src')
    failed,_=c.analyze_compiler_output(render(cs))
    files=[]; counts=[]
    for f,msgs in (failed or {}).items():
        files.append(inv.get(f,f)); counts.append(len(msgs))
    runs.append({"cs":cs,"crash":bool(c.crash_msg),"files":files,"counts":counts})
json.dump({"runs":runs}, open(sys.argv[2],'w'))
print(lang,'outputs',len(runs))
