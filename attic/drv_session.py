"""run ONE session (list of batches) through the real check_oracle/update_stats; print observation JSON"""
import sys, os, tempfile, shutil, json, io, contextlib
sys.path.insert(0, sys.argv[2] if len(sys.argv)>2 else '/repo')
sc=json.loads(sys.argv[1])
bugs=tempfile.mkdtemp(prefix='hbugs')
sys.argv=['hephaestus.py','--bugs',bugs,'--name','s1','--language','java','--iterations','100','--batch','4','-t','0','--log-file',os.path.join(bugs,'logs')]
buf=io.StringIO()
obs={"exc":""}
try:
  with contextlib.redirect_stdout(buf):
    import hephaestus as H
    from collections import OrderedDict
    td=H.cli_args.test_directory
    pid=1
    for b in sc:
        tmpdir=tempfile.mkdtemp(prefix='hbatch')
        oracles=OrderedDict(); rej=[]
        for i,q in enumerate(b['progs']):
            if q['kind']=='tool':
                oracles[pid]=H.ProgramRes(True, {'transformations':[], 'error':'boom','program':None,'time':0})
            else:
                progs={}
                d=os.path.join(tmpdir,'src','pa%d'%pid); os.makedirs(d); f=os.path.join(d,'Main.java'); open(f,'w').write('x'); progs[f]=True
                os.makedirs(os.path.join(td,'tmp',str(pid))); open(os.path.join(td,'tmp',str(pid),'Main.java'),'w').write('x')
                if q['rp']: rej.append(f)
                err=None
                if q['kind']=='both':
                    d=os.path.join(tmpdir,'src','pb%d'%pid); os.makedirs(d); f2=os.path.join(d,'Main.java'); open(f2,'w').write('y'); progs[f2]=False
                    open(os.path.join(td,'tmp',str(pid),'Incorrect.java'),'w').write('y')
                    if q['rf']: rej.append(f2)
                    err='X expected but Y found in node global/f'
                oracles[pid]=H.ProgramRes(False, {'transformations':[], 'error':err, 'programs':progs, 'time':0.0})
            pid+=1
        if b['crash']:
            out="An exception has occurred in the compiler (17.0.1).\njava.lang.NullPointerException: boom\n\tat jdk.compiler/com.sun.tools.javac.comp.Attr.visitApply(Attr.java:1)\n"
        else:
            out=''.join(f+":3: error: incompatible types: A cannot be converted to B\n  x\n  ^\n" for f in rej)+('%d errors\n'%len(rej) if rej else '')
        H.run_command=lambda args, get_stdout=True, out=out: (False, out)
        res=H.check_oracle(tmpdir, oracles)
        H.update_stats(res, len(b['progs']), 0.0)
        obs_batchdir_left=os.path.exists(tmpdir)
        if obs_batchdir_left: shutil.rmtree(tmpdir)
    # end of session as in run()
    path=os.path.join(td,'tmp')
    if os.path.exists(path): shutil.rmtree(path)
    faults=json.load(open(os.path.join(td,'faults.json')))
    obs.update({"passed":H.STATS['totals']['passed'],"failed":H.STATS['totals']['failed'],
                "faults":sorted(int(k) for k in faults.keys()),
                "saved":sorted(int(x) for x in os.listdir(td) if x.isdigit()),
                "tmpleft":os.path.exists(os.path.join(td,'tmp'))})
except BaseException as e:
    obs["exc"]=type(e).__name__
    obs.update({"passed":0,"failed":0,"faults":[],"saved":[],"tmpleft":False})
shutil.rmtree(bugs, ignore_errors=True)
print(json.dumps(obs))
