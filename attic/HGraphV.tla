---------------------------- MODULE HGraphV ----------------------------
\* Pre-study prototype (NOT framework code): textbook definitions of the graph queries, validation of recorded results.
EXTENDS Naturals, Sequences, FiniteSets, TLC, Json, IOUtils
Cases == JsonDeserialize(IOEnv.TRACE_FILE).cases
ToSet(s) == {s[j] : j \in DOMAIN s}
Succ(g, x) == ToSet(g[x])
RECURSIVE Closure(_, _)
Closure(g, S) == LET S2 == S \cup UNION {Succ(g, x) : x \in S} IN IF S2 = S THEN S ELSE Closure(g, S2)
ReachSet(g, u) == Closure(g, {u})
Und(g) == [x \in DOMAIN g |-> LET s == Succ(g, x) \cup {y \in DOMAIN g : x \in Succ(g, y)} IN s]
RECURSIVE ClosureS(_, _)
ClosureS(h, S) == LET S2 == S \cup UNION {h[x] : x \in S} IN IF S2 = S THEN S ELSE ClosureS(h, S2)
ConnSet(g, u) == ClosureS(Und(g), {u})
Sources(g, v) == {s \in DOMAIN g : (\A y \in DOMAIN g : s \notin Succ(g, y)) /\ v \in ReachSet(g, s)}
RECURSIVE Paths(_, _)
Paths(g, path) == {path} \cup UNION {Paths(g, Append(path, w)) : w \in Succ(g, path[Len(path)]) \ ToSet(path)}
IsPrefix(a, b) == Len(a) <= Len(b) /\ SubSeq(b, 1, Len(a)) = a
Maximal(g, v) == LET P == Paths(g, <<v>>) IN {q \in P : ~\E r \in P : r # q /\ IsPrefix(q, r)}
AsSetOK(lst, S) == ToSet(lst) = S /\ Len(lst) = Cardinality(S)

Bad(c) ==
  LET g == c.g  V == DOMAIN g IN
  {<<f, u, v>> \in {"reach", "bi", "conn", "allreach", "allbi", "allconn", "sources", "paths", "longest"} \X V \X V :
     LET r == c.res[u] IN
     CASE f = "reach" -> r.reach[v] # (v \in ReachSet(g, u))
       [] f = "bi" -> r.bi[v] # (v \in ReachSet(g, u) \/ u \in ReachSet(g, v))
       [] f = "conn" -> r.conn[v] # (v \in ConnSet(g, u))
       [] f = "allreach" -> v = 1 /\ ~AsSetOK(r.allreach, ReachSet(g, u))
       [] f = "allbi" -> v = 1 /\ ~AsSetOK(r.allbi, {y \in V : y \in ReachSet(g, u) \/ u \in ReachSet(g, y)})
       [] f = "allconn" -> v = 1 /\ ~AsSetOK(r.allconn, ConnSet(g, u))
       [] f = "sources" -> v = 1 /\ ~AsSetOK(r.sources, Sources(g, u))
       [] f = "paths" -> v = 1 /\ ~AsSetOK(r.paths, Paths(g, <<u>>))
       [] f = "longest" -> v = 1 /\ ~AsSetOK(r.longest, Maximal(g, u))}
AllBad == {<<c, b>> \in (DOMAIN Cases) \X (({"reach", "bi", "conn", "allreach", "allbi", "allconn", "sources", "paths", "longest"} \X (1..4)) \X (1..4)) : FALSE}
Summary == [f \in {"reach", "bi", "conn", "allreach", "allbi", "allconn", "sources", "paths", "longest"} |->
              Cardinality({c \in DOMAIN Cases : \E b \in Bad(Cases[c]) : b[1] = f})]
ASSUME PrintT(ToJson([summary |-> Summary, first |-> LET bc == {c \in DOMAIN Cases : Bad(Cases[c]) # {}} IN IF bc = {} THEN 0 ELSE CHOOSE c \in bc : \A d \in bc : c <= d]))
VARIABLE x
Spec == x = 0 /\ [][UNCHANGED x]_x
=======================================================================
