import json,sys
d=json.load(open(sys.argv[1]))
def s(t):
    if t==[] or t is None: return '-'
    if isinstance(t,list): return '['+', '.join(s(x) for x in t)+']'
    if t['k']=='W': return (t['n']+' '+s(t['a'][0])) if t['a'] else '*'
    if t['k']=='V': return t['n']+(':'+s(t['a'][0]) if t['a'] else '')
    return ('prim ' if t['k']=='P' else '')+t['n']+('<'+', '.join(s(a) for a in t['a'])+'>' if t['a'] else '')
pi=int(sys.argv[2]); ei=int(sys.argv[3]); span=int(sys.argv[4]) if len(sys.argv)>4 else 6
P=d['progs'][pi-1]
print('seed',P['seed'],'lang',P['lang'])
for j in range(max(0,ei-1-span), min(len(P['ev']),ei+1)):
    e=P['ev'][j]
    desc={k:(s(v) if k in ('t','vt','it','ret','sig') and isinstance(v,(dict,list)) and k!='sig' else v) for k,v in e.items() if k not in ('tps',)}
    if 'sig' in e and isinstance(e['sig'],dict) and 'params' in e['sig']:
        desc['sig']=e['sig']['n']+'('+', '.join(p['n']+': '+s(p['t'])+('=dflt' if p['dflt'] else '')+('...' if p['vararg'] else '') for p in e['sig']['params'])+'): '+s(e['sig']['ret'])
    elif 'sig' in e: desc['sig']=s(e['sig'])
    if 'targs' in e: desc['targs']=s(e['targs'])
    print(j+1, desc)
if len(sys.argv)>5:
    name=sys.argv[5]
    for c,v in P['ct'].items():
        for f in v['funs']:
            if f['n']==name: print('CLASS',c,f['n'],[(p['n'],s(p['t']),p['dflt'],p['vararg']) for p in f['params']],'->',s(f['ret']))
    for f in P['g']['funs']:
        if f['n']==name: print('GLOBAL',f['n'],[(p['n'],s(p['t']),p['dflt'],p['vararg']) for p in f['params']],'->',s(f['ret']))
