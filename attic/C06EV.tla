---------------------------- MODULE C06EV ----------------------------
EXTENDS HTypingProto
UnK(t) == IF t.k = "K" /\ t.n \in DOMAIN CT THEN This(t.n) ELSE t
BadQ(pp) == {j \in DOMAIN Progs[pp].q : LET q == Progs[pp].q[j] IN ~Sub(UnK(q.s), UnK(q.t))}
BadFS(pp) == {<<j, x>> \in (DOMAIN Progs[pp].fs) \X (1..60) : LET f == Progs[pp].fs[j] IN x \in DOMAIN f.res /\ (~Sub(UnK(f.res[x]), UnK(f.t)) \/ (f.co /\ f.res[x].k = "K"))}
EVNext == /\ p <= Len(Progs)
          /\ viol' = viol \cup {<<p, j, "C06.unsound", "", Progs[p].q[j].s, Progs[p].q[j].t>> : j \in BadQ(p)}
                           \cup {<<p, b[1], "C09.notsubtype", "", Progs[p].fs[b[1]].res[b[2]], Progs[p].fs[b[1]].t>> : b \in BadFS(p)}
          /\ p' = p + 1 /\ UNCHANGED <<i, scopes, ts>>
EVSpec == p = 1 /\ i = 1 /\ scopes = <<>> /\ ts = <<>> /\ viol = {} /\ [][EVNext]_vars
EVDone == p > Len(Progs) => PrintT(ToJson([viol |-> viol]))
=======================================================================
