SPECIFICATION GSpec
INVARIANT GEmit
CHECK_DEADLOCK FALSE
