---------------------------- MODULE HDriverProto ----------------------------
\* Pre-study prototype (NOT framework code): the driver's oracle decision table, counters and files (sequential mode).
EXTENDS Naturals, Sequences, FiniteSets, TLC, Json, IOUtils

\* a program outcome: kind \in {"tool","pass","both"}; rp = compiler rejects its expected-pass file; rf = compiler rejects its expected-fail file
Prog == [kind : {"tool", "pass", "both"}, rp : BOOLEAN, rf : BOOLEAN]
NormProg == {q \in Prog : (q.kind = "tool" => ~q.rp /\ ~q.rf) /\ (q.kind = "pass" => ~q.rf)}
Batch == [crash : BOOLEAN, progs : Seq(NormProg)]

Fault(q, crash) == q.kind = "tool" \/ crash \/ q.rp \/ (q.kind = "both" /\ ~q.rf)
MsgClass(q, crash) ==
  IF q.kind = "tool" THEN "tool" ELSE IF crash THEN "crash" ELSE IF q.kind = "both" /\ ~q.rf THEN "should-not-compile" ELSE "compiler"
  \* when both mismatch, the last write wins in the code ("SHOULD NOT BE COMPILED: ..."); either is acceptable, see V
Saved(q, crash) == Fault(q, crash) /\ q.kind # "tool"

\* ================= G: scenarios =================
VARIABLE sc
ProgsUpTo2 == {<<a>> : a \in NormProg} \cup {<<a, b>> : a \in NormProg, b \in NormProg}
GInit == sc \in {<<[crash |-> c, progs |-> ps]>> : c \in BOOLEAN, ps \in ProgsUpTo2}
GNext == UNCHANGED sc
GSpec == GInit /\ [][GNext]_sc
GEmit == PrintT(ToJson(sc))

\* ================= V =================
Runs == JsonDeserialize(IOEnv.TRACE_FILE).runs
\* expected projection after a whole session (all batches checked, stats updated, session ended)
RECURSIVE Flat(_, _)
Flat(bs, j) == IF j = 0 THEN <<>> ELSE Flat(bs, j - 1) \o [x \in DOMAIN bs[j].progs |-> [q |-> bs[j].progs[x], crash |-> bs[j].crash]]
Expect(bs) ==
  LET fl == Flat(bs, Len(bs))
      F == {x \in DOMAIN fl : Fault(fl[x].q, fl[x].crash)} IN
  [passed |-> Len(fl) - Cardinality(F), failed |-> Cardinality(F), faults |-> F,
   saved |-> {x \in DOMAIN fl : Saved(fl[x].q, fl[x].crash)},
   cls |-> [x \in F |-> MsgClass(fl[x].q, fl[x].crash)]]
BadRun(r) ==
  LET ex == Expect(r.sc)  ob == r.obs IN
  {c \in {"exception", "passed", "failed", "faults", "saved", "tmpleft"} :
     CASE c = "exception" -> ob.exc # ""
       [] c = "passed" -> ob.exc = "" /\ ob.passed # ex.passed
       [] c = "failed" -> ob.exc = "" /\ ob.failed # ex.failed
       [] c = "faults" -> ob.exc = "" /\ {ob.faults[j] : j \in DOMAIN ob.faults} # ex.faults
       [] c = "saved" -> ob.exc = "" /\ {ob.saved[j] : j \in DOMAIN ob.saved} # ex.saved
       [] c = "tmpleft" -> ob.exc = "" /\ ob.tmpleft}
DoubleMismatch(r) == \E b \in DOMAIN r.sc : \E x \in DOMAIN r.sc[b].progs : LET q == r.sc[b].progs[x] IN ~r.sc[b].crash /\ q.kind = "both" /\ q.rp /\ ~q.rf
CrashWithToolFailure(r) == \E b \in DOMAIN r.sc : r.sc[b].crash /\ \E x \in DOMAIN r.sc[b].progs : r.sc[b].progs[x].kind = "tool"
Report == [bad |-> Cardinality({j \in DOMAIN Runs : BadRun(Runs[j]) # {}}),
           F2 |-> Cardinality({j \in DOMAIN Runs : BadRun(Runs[j]) # {} /\ DoubleMismatch(Runs[j])}),
           F3 |-> Cardinality({j \in DOMAIN Runs : BadRun(Runs[j]) # {} /\ ~DoubleMismatch(Runs[j]) /\ CrashWithToolFailure(Runs[j])}),
           other |-> {<<j, BadRun(Runs[j])>> : j \in {j \in DOMAIN Runs : BadRun(Runs[j]) # {} /\ ~DoubleMismatch(Runs[j]) /\ ~CrashWithToolFailure(Runs[j])}},
           total |-> Len(Runs)]
=======================================================================
