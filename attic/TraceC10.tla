---------------------------- MODULE TraceC10 ----------------------------
EXTENDS Types, Json, IOUtils, TLCExt
Data == JsonDeserialize(IOEnv.TRACE_FILE)
CT == Data.ct
Q == Data.q
SigMap(sig) == [x \in {sig[i][1] : i \in DOMAIN sig} |-> (sig[CHOOSE i \in DOMAIN sig : sig[i][1] = x])[2]]
RECURSIVE VarsOf(_)
VarsOf(t) == IF t.k = "V" THEN {t} ELSE UNION {VarsOf(t.a[i]) : i \in DOMAIN t.a}
RECURSIVE Match(_, _, _)
Match(g, p, m) ==
  IF p.k = "V" THEN (IF p.n \in DOMAIN m THEN g = m[p.n] ELSE (p.a = <<>> \/ Sub(CT, g, p.a[1])))
  ELSE g.k = p.k /\ g.n = p.n /\ Len(g.a) = Len(p.a) /\ \A i \in DOMAIN g.a : Match(g.a[i], p.a[i], m)
RECURSIVE SupersOf(_)
SupersOf(S) == {S} \cup (IF S.k = "C" THEN UNION {SupersOf(Up(CT, CT[S.n].sup[i], ParamMap(CT, S))) : i \in DOMAIN CT[S.n].sup} ELSE {})
UnifyOK(q) ==
  \/ q.sig = <<>>
  \/ LET m == SigMap(q.sig) IN
     /\ \A v \in VarsOf(q.t2) : v.n \in DOMAIN m => (v.a = <<>> \/ Sub(CT, m[v.n], v.a[1]))
     /\ IF q.same THEN Match(q.t1, q.t2, m) ELSE \E g \in SupersOf(q.t1) : Match(g, q.t2, m)
Bad == {i \in DOMAIN Q : ~UnifyOK(Q[i])}
ASSUME PrintT(ToJson([n |-> Cardinality(Bad), w |-> {Q[i] : i \in Bad}]))
VARIABLE c
Spec == c = 1 /\ [][UNCHANGED c]_c
=======================================================================
