SPECIFICATION Spec
CONSTRAINT Emit
CHECK_DEADLOCK FALSE
