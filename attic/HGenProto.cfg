SPECIFICATION Spec
CONSTANTS MaxDepth = 3
          ModelZeroCostReceiver = FALSE
INVARIANT DepthBounded
PROPERTY Termination
CHECK_DEADLOCK FALSE
