import random; random.seed(12345)
import sys, json
sys.path.insert(0,'/repo'); sys.setrecursionlimit(20000)
from src import utils
from src.generators.generator import Generator
from src.ir import ast, types as tp
import src.ir.builtins as bt

def ser_t(t):
    if t is None: return []
    if isinstance(t, tp.WildCardType):
        v={0:'star' if t.bound is None else 'inv',1:'out',2:'in'}[t.variance.value]
        return {"k":"W","n":v,"a":[ser_t(t.bound)] if t.bound is not None else []}
    if isinstance(t, tp.TypeParameter):
        return {"k":"V","n":t.name,"a":[ser_t(t.bound)] if t.bound is not None else []}
    if isinstance(t, tp.ParameterizedType):
        return {"k":"C","n":t.name,"a":[ser_t(a) for a in t.type_args]}
    if isinstance(t, tp.TypeConstructor):
        return {"k":"K","n":t.name,"a":[]}
    if isinstance(t, tp.Builtin):
        if getattr(t,'primitive',False): return {"k":"P","n":t.get_name(),"a":[]}
        return {"k":"C","n":t.name,"a":[]}
    if isinstance(t, tp.NothingType): return {"k":"N","n":"Nothing","a":[]}
    if isinstance(t, tp.SimpleClassifier): return {"k":"C","n":t.name,"a":[]}
    raise Exception(type(t))

events=[]
def walk(n):
    if isinstance(n, tp.Type):
        return
    rec={"ev":type(n).__name__}
    for k,v in vars(n).items():
        if k.startswith('_verif'): continue
        if isinstance(v,(str,int,bool)) : rec[k]=v
        elif isinstance(v, tp.Type): rec[k]=ser_t(v)
        elif isinstance(v, ast.Operator): rec[k]=str(v)
        elif isinstance(v, list) and v and all(isinstance(x, tp.Type) for x in v): rec[k]=[ser_t(x) for x in v]
    kids=[c for c in n.children() if not isinstance(c, tp.Type)]
    rec["nk"]=len(kids)
    scoped=isinstance(n,(ast.FunctionDeclaration, ast.ClassDeclaration, ast.Lambda))
    if scoped: events.append({"ev":"Enter","kind":type(n).__name__,"name":n.name})
    for c in kids: walk(c)
    events.append(rec)
    if scoped: events.append({"ev":"Exit"})

lang=sys.argv[1]
utils.random.remove_reserved_words(lang)
sizes=[]
for seed in range(int(sys.argv[2])):
    utils.random.r.seed(seed); utils.random.reset_word_pool()
    p=Generator(language=lang).generate()
    events=[]
    for d in p.context.get_declarations(('global',), only_current=True).values(): walk(d)
    s=json.dumps(events)
    sizes.append((len(events), len(s)))
print(lang, 'events/bytes per program:', sizes[:10], 'max', max(sizes))
json.dump({"ev":events}, open('/tmp/proto/walk.json','w'))
