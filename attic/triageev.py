import json,sys,subprocess,os,re,collections
def s(t):
    if t==[] or t is None: return '-'
    if t['k']=='W': return (t['n']+' '+s(t['a'][0])) if t['a'] else '*'
    if t['k']=='V': return t['n']+(':'+s(t['a'][0]) if t['a'] else '')
    if t['k']=='N': return 'BOT'
    return ('prim ' if t['k']=='P' else '')+t['n']+('<'+', '.join(s(a) for a in t['a'])+'>' if t['a'] else '')
lang=sys.argv[1]
env=dict(os.environ, TRACE_FILE='/tmp/proto/t_%s.json'%lang)
out=subprocess.run(['tlc','-workers','1','-metadir','/tmp/proto/m_'+lang,'-noGenerateSpecTE','C06EV.tla'],env=env,capture_output=True,text=True,cwd='/root/prestudy').stdout
subprocess.run(['rm','-rf','/tmp/proto/m_'+lang])
m=[l for l in out.split('\n') if l.startswith('"{')]
if not m: print(out[-3000:]); sys.exit()
v=json.loads(json.loads(m[-1]))['viol']
print(lang,'violations',len(v))
groups=collections.Counter()
ex={}
for x in v:
    key=(x[2], s(x[4]), s(x[5]))
    groups[key]+=1; ex.setdefault(key,(x[0],x[1],x[3]))
for k,c in groups.most_common(int(sys.argv[2]) if len(sys.argv)>2 else 40):
    print('%4d %-26s %-40s -> %-40s e.g. prog %d ev %d %s'%(c,k[0],k[1][:40],k[2][:40],*ex[k]))
