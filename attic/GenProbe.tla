---------------------------- MODULE GenProbe ----------------------------
EXTENDS Naturals, Sequences, FiniteSets, TLC, Json, IOUtils
VARIABLES a, b, c
Init == a \in 1..50 /\ b \in 1..50 /\ c \in 1..40
Next == UNCHANGED <<a,b,c>>
Emit == PrintT(ToJson([a |-> a, b |-> <<b, [k |-> "C", n |-> "Foo", a |-> <<>>]>>, c |-> c]))
Spec == Init /\ [][Next]_<<a,b,c>>
=======================================================================
