import random; random.seed(12345)
import sys, json
sys.path.insert(0,'/repo'); sys.setrecursionlimit(20000)
from src import utils
from src.generators.generator import Generator
from src.ir import ast, types as tp
from ser_probe_types import ser_t

class W:
    def __init__(self): self.ev=[]
    def e(self, **k): self.ev.append(k)
    def walk(self, n):
        T=type(n).__name__
        if isinstance(n, ast.VariableDeclaration):
            self.walk(n.expr); self.e(ev="VarDecl", name=n.name, final=bool(n.is_final), vt=ser_t(n.var_type), it=ser_t(n.inferred_type))
        elif isinstance(n, ast.FunctionDeclaration):
            self.e(ev="Enter", kind="Fun", name=n.name, tps=[t.name for t in n.type_parameters])
            for p in n.params:
                if p.default is not None: self.walk(p.default)
                self.e(ev="ParamDecl", name=p.name, t=ser_t(p.param_type), vararg=bool(p.vararg), dflt=p.default is not None)
            if n.body is not None: self.walk(n.body)
            self.e(ev="Exit", kind="Fun", name=n.name, body=n.body is not None)
        elif isinstance(n, ast.Lambda):
            self.e(ev="Enter", kind="Lambda", name=n.name, tps=[])
            for p in n.params: self.e(ev="ParamDecl", name=p.name, t=ser_t(p.param_type), vararg=False, dflt=False)
            if n.body is not None: self.walk(n.body)
            self.e(ev="Exit", kind="Lambda", name=n.name, body=True)
        elif isinstance(n, ast.ClassDeclaration):
            self.e(ev="Enter", kind="Class", name=n.name, tps=[t.name for t in n.type_parameters])
            for f in n.fields: self.e(ev="FieldDecl", name=f.name, t=ser_t(f.field_type), final=bool(f.is_final))
            for s in n.superclasses:
                for a in (s.args or []): self.walk(a)
                self.e(ev="Super", t=ser_t(s.class_type), nk=len(s.args or []))
            for f in n.functions: self.walk(f)
            self.e(ev="Exit", kind="Class", name=n.name, body=True)
        elif isinstance(n, ast.Block):
            self.e(ev="Enter", kind="Block", name="", tps=[])
            for c in n.body: self.walk(c)
            self.e(ev="Exit", kind="Block", name="", body=True)
        elif isinstance(n, ast.Conditional):
            self.walk(n.cond)
            sc = isinstance(n.cond, ast.Is) and isinstance(n.cond.lexpr, ast.Variable)
            self.e(ev="Enter", kind="True", name=n.cond.lexpr.name if sc else "", tps=[])
            self.walk(n.true_branch); self.e(ev="Exit", kind="True", name="", body=True)
            self.e(ev="Enter", kind="False", name="", tps=[])
            self.walk(n.false_branch); self.e(ev="Exit", kind="False", name="", body=True)
            self.e(ev="Cond", t=ser_t(n.inferred_type))
        elif isinstance(n, ast.Variable):
            self.e(ev="Var", name=n.name)
        elif isinstance(n, ast.FunctionCall):
            if n.receiver is not None: self.walk(n.receiver)
            for a in n.args: self.walk(a)
            self.e(ev="Call", name=n.func, recv=n.receiver is not None, ref=bool(n.is_ref_call), nk=len(n.args))
        elif isinstance(n, ast.Assignment):
            if n.receiver is not None: self.walk(n.receiver)
            self.walk(n.expr)
            self.e(ev="Assign", name=n.name, recv=n.receiver is not None)
        elif isinstance(n, ast.FunctionReference):
            if n.receiver is not None: self.walk(n.receiver)
            self.e(ev="FuncRef", name=n.func, recv=n.receiver is not None)
        else:
            for c in n.children():
                if not isinstance(c, tp.Type): self.walk(c)
            self.e(ev="Other", kind=T)

lang=sys.argv[1]
utils.random.remove_reserved_words(lang)
progs=[]
for seed in range(int(sys.argv[2])):
    utils.random.r.seed(seed); utils.random.reset_word_pool()
    p=Generator(language=lang).generate()
    w=W()
    tops=list(p.context.get_declarations(('global',), only_current=True).values())
    g={"vars":[d.name for d in tops if isinstance(d, ast.VariableDeclaration)],
       "funs":[d.name for d in tops if isinstance(d, ast.FunctionDeclaration)],
       "classes":{d.name:{"fields":[f.name for f in d.fields],"funs":[f.name for f in d.functions],
                          "sup":[s.class_type.name for s in d.superclasses]} for d in tops if isinstance(d, ast.ClassDeclaration)}}
    for d in tops: w.walk(d)
    progs.append({"seed":seed,"g":g,"ev":w.ev})
json.dump({"progs":progs}, open('/tmp/proto/walks.json','w'))
print(lang, len(progs), sum(len(p['ev']) for p in progs))
