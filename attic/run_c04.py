import random; random.seed(12345)
import sys, json
sys.path.insert(0,'/repo'); sys.path.insert(0,'/root/prestudy'); sys.setrecursionlimit(20000)
from src import utils
from src.generators.generator import Generator
from src.transformations.type_erasure import TypeErasure
from src.transformations.type_overwriting import TypeOverwriting
from ser2 import ser_program
lang=sys.argv[1]; lo=int(sys.argv[2]); hi=int(sys.argv[3]); out=sys.argv[4]; erase=sys.argv[5]=='1'
utils.random.remove_reserved_words(lang)
progs=[]; meta=[]
for seed in range(lo,hi):
    utils.random.r.seed(seed); utils.random.reset_word_pool()
    p=Generator(language=lang).generate()
    if erase:
        te=TypeErasure(p,lang,None,{}); te.transform(); p=te.result()
    to=TypeOverwriting(p,lang,None,{}); to.transform(); p=to.result()
    if not to.is_transformed: continue
    d=ser_program(p); d['seed']=seed; d['inj']=to.error_injected
    progs.append(d)
json.dump({"progs":progs}, open(out,'w'))
print(lang, len(progs))
