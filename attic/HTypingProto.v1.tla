---------------------------- MODULE HTypingProto ----------------------------
\* Pre-study prototype (NOT framework code): typing / scoping walk over serialised programs.
EXTENDS Naturals, Sequences, FiniteSets, TLC, Json, IOUtils

Data == JsonDeserialize(IOEnv.TRACE_FILE)
Progs == Data.progs
VARIABLES p, i, scopes, ts, viol
vars == <<p, i, scopes, ts, viol>>

P == Progs[p]
CT == P.ct
Ev == P.ev
NM == P.names

Cls(n, a) == [k |-> "C", n |-> n, a |-> a]
Wild(v, a) == [k |-> "W", n |-> v, a |-> a]
Var(n, a) == [k |-> "V", n |-> n, a |-> a]
Bot == [k |-> "N", n |-> "Nothing", a |-> <<>>]
Mark == [k |-> "MARK", n |-> "", a |-> <<>>]
TopT == Cls(NM.top, <<>>)
UnitT == Cls(NM.unit, <<>>)
BoolT == Cls(NM.bool, <<>>)
EmptyMap == [x \in {} |-> Bot]

Kind(t) == IF t.k = "P" THEN "C" ELSE t.k
RECURSIVE SameT(_, _)
SameT(A, B) == IF A.k = "V" /\ B.k = "V" THEN A.n = B.n
               ELSE /\ Kind(A) = Kind(B) /\ A.n = B.n /\ Len(A.a) = Len(B.a)
                    /\ \A j \in DOMAIN A.a : SameT(A.a[j], B.a[j])
IsTop(t) == t.k = "C" /\ t.n = NM.top
IsUnit(t) == Kind(t) = "C" /\ t.n = NM.unit

RECURSIVE Captures(_, _)
Captures(t, m) ==
  IF t.k = "V" THEN t.n \in DOMAIN m /\ m[t.n].k = "W"
  ELSE \E j \in DOMAIN t.a : Captures(t.a[j], m)

RECURSIVE Subst(_, _)
Subst(t, m) ==
  IF t.k = "V" THEN (IF t.n \in DOMAIN m THEN m[t.n] ELSE Var(t.n, [j \in DOMAIN t.a |-> Subst(t.a[j], m)]))
  ELSE [k |-> t.k, n |-> t.n, a |-> [j \in DOMAIN t.a |-> Subst(t.a[j], m)]]

VarianceOf(t, j) == IF t.n \in DOMAIN CT /\ j \in DOMAIN CT[t.n].tp THEN CT[t.n].tp[j].v ELSE "inv"

RECURSIVE Up(_, _), Down(_, _)
Up(t, m) ==
  IF ~Captures(t, m) THEN Subst(t, m)
  ELSE IF t.k = "V" THEN (LET q == m[t.n] IN IF q.n = "out" THEN q.a[1] ELSE IF t.a # <<>> THEN Up(t.a[1], m) ELSE TopT)
  ELSE IF t.k = "W" THEN (IF t.n = "out" THEN Wild("out", <<Up(t.a[1], m)>>)
                          ELSE IF t.n = "in" THEN Wild("in", <<Down(t.a[1], m)>>) ELSE t)
  ELSE [k |-> t.k, n |-> t.n, a |-> [j \in DOMAIN t.a |->
          LET aj == t.a[j]  v == VarianceOf(t, j) IN
          IF ~Captures(aj, m) THEN Subst(aj, m)
          ELSE IF aj.k = "W" THEN Up(aj, m)
          ELSE IF v = "out" THEN Up(aj, m)
          ELSE IF v = "in" THEN Down(aj, m)
          ELSE IF aj.k = "V" THEN m[aj.n]
          ELSE Wild("out", <<Up(aj, m)>>)]]
Down(t, m) ==
  IF ~Captures(t, m) THEN Subst(t, m)
  ELSE IF t.k = "V" THEN (LET q == m[t.n] IN IF q.n = "in" THEN q.a[1] ELSE Bot)
  ELSE IF t.k = "W" THEN (IF t.n = "out" THEN Wild("out", <<Down(t.a[1], m)>>)
                          ELSE IF t.n = "in" THEN Wild("in", <<Up(t.a[1], m)>>) ELSE t)
  ELSE IF \E j \in DOMAIN t.a : Captures(t.a[j], m) /\ t.a[j].k # "W" /\ VarianceOf(t, j) = "inv" THEN Bot
  ELSE [k |-> t.k, n |-> t.n, a |-> [j \in DOMAIN t.a |-> LET aj == t.a[j]  v == VarianceOf(t, j) IN
          IF ~Captures(aj, m) THEN Subst(aj, m) ELSE IF aj.k = "W" THEN Down(aj, m)
          ELSE IF v = "out" THEN Down(aj, m) ELSE Up(aj, m)]]

ParamMap(S) ==
  IF S.n \notin DOMAIN CT \/ Len(CT[S.n].tp) # Len(S.a) THEN EmptyMap
  ELSE LET ps == CT[S.n].tp IN
       [x \in {ps[j].n : j \in DOMAIN ps} |-> S.a[CHOOSE j \in DOMAIN ps : ps[j].n = x]]

RECURSIVE Sub(_, _), Cont(_, _, _)
Sub(S, T) ==
  \/ S.k = "U" /\ Sub(S.a[1], T) /\ Sub(S.a[2], T)
  \/ S.k # "U" /\ SameT(S, T)
  \/ S.k = "N"
  \/ IsTop(T)
  \/ T.k = "W" /\ T.n = "out" /\ Sub(S, T.a[1])
  \/ /\ Kind(S) = "C" /\ S.n \in DOMAIN CT
     /\ \/ /\ Kind(T) = "C" /\ S.n = T.n /\ Len(S.a) = Len(T.a)
           /\ \A j \in DOMAIN S.a : Cont(S.a[j], T.a[j], VarianceOf(S, j))
        \/ \E j \in DOMAIN CT[S.n].sup : Sub(Up(CT[S.n].sup[j], ParamMap(S)), T)
  \/ /\ S.k = "V" /\ Len(S.a) = 1 /\ Sub(S.a[1], T)
  \/ /\ S.k = "W" /\ S.n = "out" /\ Sub(S.a[1], T)
Cont(A, B, v) ==
  IF B.k = "W" THEN
     CASE B.n = "star" -> TRUE
       [] B.n = "out" -> IsTop(B.a[1]) \/ (IF A.k = "W" THEN A.n = "out" /\ Sub(A.a[1], B.a[1]) ELSE Sub(A, B.a[1]))
       [] B.n = "in"  -> IF A.k = "W" THEN A.n = "in" /\ Sub(B.a[1], A.a[1]) ELSE Sub(B.a[1], A)
       [] OTHER -> FALSE
  ELSE
     CASE v = "inv" -> SameT(A, B)
       [] v = "out" -> IF A.k = "W" THEN A.n = "out" /\ Sub(A.a[1], B) ELSE Sub(A, B)
       [] v = "in"  -> IF A.k = "W" THEN A.n = "in" /\ Sub(B, A.a[1]) ELSE Sub(B, A)

StripW(T) == IF T.k = "W" /\ T.a # <<>> THEN T.a[1] ELSE T
Assignable(S, T) == Sub(StripW(S), StripW(T))

\* ---------------------------------------------------------------- bounds of explicit type arguments
Plain(a) == IF a.k = "W" /\ a.a # <<>> THEN a.a[1] ELSE a
RECURSIVE BadBounds(_)
BadBounds(T) ==   \* set of <<class, param>> whose argument violates the declared bound, anywhere inside T
  IF T.k \in {"W", "V"} THEN (IF T.a = <<>> THEN {} ELSE BadBounds(T.a[1]))
  ELSE IF Kind(T) # "C" \/ T.n \notin DOMAIN CT \/ Len(CT[T.n].tp) # Len(T.a) THEN {}
  ELSE LET ps == CT[T.n].tp
           pm == [x \in {ps[j].n : j \in DOMAIN ps} |-> Plain(T.a[CHOOSE j \in DOMAIN ps : ps[j].n = x])] IN
       {<<T.n, ps[j].n>> : j \in {j \in DOMAIN ps : /\ ps[j].b # <<>>
                                                      /\ ~(T.a[j].k = "W" /\ T.a[j].n \in {"in", "star"})
                                                      /\ ~Sub(Plain(T.a[j]), Subst(ps[j].b[1], pm))}}
       \cup UNION {BadBounds(T.a[j]) : j \in DOMAIN T.a}
ChkB(T, x) == {<<p, i, "TypeArgWithinBound", x \o ":" \o bb[1] \o "." \o bb[2], T, Bot>> : bb \in BadBounds(T)}

\* ---------------------------------------------------------------- members
This(c) == Cls(c, [j \in DOMAIN CT[c].tp |-> Var(CT[c].tp[j].n, CT[c].tp[j].b)])
Strip(T) == IF T.k \in {"V", "W"} /\ T.a # <<>> THEN T.a[1] ELSE IF T.k = "U" THEN T.a[3] ELSE T

RECURSIVE FieldT(_, _)
FieldT(T0, f) ==
  LET T == Strip(T0) IN
  IF T.k \in {"V", "W"} /\ T.a # <<>> THEN FieldT(T, f)
  ELSE IF Kind(T) # "C" \/ T.n \notin DOMAIN CT THEN <<>>
  ELSE LET c == CT[T.n]  m == ParamMap(T)
           own == {j \in DOMAIN c.fields : c.fields[j].n = f}
           sups == {j \in DOMAIN c.sup : FieldT(Up(c.sup[j], m), f) # <<>>}
       IN IF own # {} THEN LET fd == c.fields[CHOOSE j \in own : TRUE] IN <<[t |-> Up(fd.t, m), dn |-> Down(fd.t, m), final |-> fd.final]>>
          ELSE IF sups # {} THEN FieldT(Up(c.sup[CHOOSE j \in sups : TRUE], m), f)
          ELSE <<>>

RECURSIVE FunOf(_, _)
FunOf(T0, f) ==
  LET T == Strip(T0) IN
  IF T.k \in {"V", "W"} /\ T.a # <<>> THEN FunOf(T, f)
  ELSE IF Kind(T) # "C" \/ T.n \notin DOMAIN CT THEN <<>>
  ELSE LET c == CT[T.n]  m == ParamMap(T)
           own == {j \in DOMAIN c.funs : c.funs[j].n = f}
           sups == {j \in DOMAIN c.sup : FunOf(Up(c.sup[j], m), f) # <<>>}
       IN IF own # {} THEN <<[f |-> c.funs[CHOOSE j \in own : TRUE], m |-> m]>>
          ELSE IF sups # {} THEN FunOf(Up(c.sup[CHOOSE j \in sups : TRUE], m), f)
          ELSE <<>>

RECURSIVE DefaultUp(_, _, _)
DefaultUp(T0, f, q) ==
  LET T == Strip(T0) IN
  IF Kind(T) # "C" \/ T.n \notin DOMAIN CT THEN FALSE
  ELSE LET c == CT[T.n]  m == ParamMap(T) IN
       \/ \E j \in DOMAIN c.funs : c.funs[j].n = f /\ q \in DOMAIN c.funs[j].params /\ c.funs[j].params[q].dflt
       \/ \E j \in DOMAIN c.sup : DefaultUp(Up(c.sup[j], m), f, q)

\* ---------------------------------------------------------------- scopes
SeqToMapVars(s) == [x \in {s[j].n : j \in DOMAIN s} |-> LET d == s[CHOOSE j \in DOMAIN s : s[j].n = x] IN [t |-> d.t, final |-> d.final]]
SeqToMapFuns(s) == [x \in {s[j].n : j \in DOMAIN s} |-> s[CHOOSE j \in DOMAIN s : s[j].n = x]]
GlobalScope(pp) == [kind |-> "Global", cls |-> "", vs |-> SeqToMapVars(Progs[pp].g.vars), fs |-> SeqToMapFuns(Progs[pp].g.funs)]
NewScope(kind, cls) == [kind |-> kind, cls |-> cls, vs |-> [x \in {} |-> [t |-> Bot, final |-> TRUE]], fs |-> [x \in {} |-> <<>>]]

HasVar(s, x) == x \in DOMAIN s.vs \/ (s.kind = "Class" /\ FieldT(This(s.cls), x) # <<>>)
VarIn(s, x) == IF x \in DOMAIN s.vs THEN s.vs[x] ELSE LET fd == FieldT(This(s.cls), x)[1] IN [t |-> fd.t, final |-> fd.final]
LookupVar(x) == LET hits == {j \in DOMAIN scopes : HasVar(scopes[j], x)} IN
                IF hits = {} THEN <<>> ELSE <<VarIn(scopes[CHOOSE j \in hits : \A h \in hits : h <= j], x)>>
HasFun(s, x) == x \in DOMAIN s.fs \/ (s.kind = "Class" /\ FunOf(This(s.cls), x) # <<>>)
FunIn(s, x) == IF x \in DOMAIN s.fs THEN [f |-> s.fs[x], m |-> EmptyMap] ELSE FunOf(This(s.cls), x)[1]
LookupFun(x) == LET hits == {j \in DOMAIN scopes : HasFun(scopes[j], x)} IN
                IF hits = {} THEN <<>> ELSE <<FunIn(scopes[CHOOSE j \in hits : \A h \in hits : h <= j], x)>>

TopScope == scopes[Len(scopes)]
BindVar(x, t, fin) == [scopes EXCEPT ![Len(scopes)].vs = (x :> [t |-> t, final |-> fin]) @@ @]
PopScope == SubSeq(scopes, 1, Len(scopes) - 1)

\* ---------------------------------------------------------------- type stack
Peek(k) == ts[Len(ts) - k]            \* k = 0 is the top
Pop(n) == SubSeq(ts, 1, Len(ts) - n)
Push(s, t) == Append(s, t)
MarkPos == CHOOSE j \in DOMAIN ts : ts[j].k = "MARK" /\ \A h \in DOMAIN ts : (ts[h].k = "MARK") => h <= j
LastSinceMark == IF MarkPos = Len(ts) THEN UnitT ELSE ts[Len(ts)]
PopToMark == SubSeq(ts, 1, MarkPos - 1)

V(c, x) == {<<p, i, c, x, Bot, Bot>>}
ChkA(S, T, c, x) == IF Assignable(S, T) THEN {} ELSE {<<p, i, c, x, S, T>>}
Chk(cond, c, x) == IF cond THEN {} ELSE V(c, x)

\* expected parameter type for argument number j (1-based) of a call with the given argument names
ParamFor(fr, argnames, j) ==
  LET ps == fr.params IN
  IF argnames[j] # "" THEN (LET hit == {q \in DOMAIN ps : ps[q].n = argnames[j]} IN IF hit = {} THEN <<>> ELSE <<ps[CHOOSE q \in hit : TRUE]>>)
  ELSE IF j \in DOMAIN ps /\ ~ps[j].vararg THEN <<ps[j]>>
  ELSE IF ps # <<>> /\ ps[Len(ps)].vararg /\ j >= Len(ps) THEN <<[ps[Len(ps)] EXCEPT !.t = IF @.a # <<>> THEN @.a[1] ELSE @]>>
  ELSE <<>>
Covered(fr, argnames, T, hasT) ==
  \A q \in DOMAIN fr.params : LET pr == fr.params[q] IN
     pr.dflt \/ pr.vararg \/ (hasT /\ DefaultUp(T, fr.n, q)) \/ (q <= Len(argnames) /\ argnames[q] = "") \/ (\E j \in DOMAIN argnames : argnames[j] = pr.n)

FunMap(fr, m, targs) ==
  IF Len(fr.tp) = Len(targs) /\ targs # <<>>
  THEN [x \in (DOMAIN m) \cup {fr.tp[j].n : j \in DOMAIN fr.tp} |->
          IF x \in {fr.tp[j].n : j \in DOMAIN fr.tp} THEN StripW(targs[CHOOSE j \in DOMAIN fr.tp : fr.tp[j].n = x]) ELSE m[x]]
  ELSE m

ConstT(e) == IF e.t # <<>> THEN e.t
             ELSE CASE e.lit = "int" -> Cls(NM.int, <<>>) [] e.lit = "bool" -> BoolT [] e.lit = "char" -> Cls(NM.char, <<>>)
                    [] e.lit = "string" -> Cls(NM.string, <<>>) [] OTHER -> Bot

Init == p = 1 /\ i = 1 /\ scopes = <<GlobalScope(1)>> /\ ts = <<>> /\ viol = {}

Step ==
  /\ i <= Len(Ev)
  /\ LET e == Ev[i] IN
     CASE e.ev = "Enter" ->
            /\ scopes' = Append(scopes,
                 IF e.kind = "Class" THEN NewScope("Class", e.name)
                 ELSE IF e.kind = "True" /\ e.name # "" THEN [NewScope("True", "") EXCEPT !.vs = (e.name :> [t |-> e.t[1], final |-> TRUE])]
                 ELSE NewScope(e.kind, ""))
            /\ ts' = IF e.kind \in {"Fun", "Lambda", "Block"} THEN Push(ts, Mark) ELSE ts
            /\ viol' = viol
       [] e.ev = "Exit" /\ e.kind \in {"True", "False", "Class"} ->
            /\ scopes' = PopScope /\ ts' = ts /\ viol' = viol
       [] e.ev = "Exit" /\ e.kind = "Block" ->
            /\ scopes' = PopScope /\ ts' = Push(PopToMark, LastSinceMark) /\ viol' = viol
       [] e.ev = "Exit" /\ e.kind = "Fun" ->
            /\ LET outer == PopScope
                   local == outer[Len(outer)].kind \notin {"Class", "Global"} IN
               scopes' = IF local THEN [outer EXCEPT ![Len(outer)].fs = (e.name :> e.sig) @@ @] ELSE outer
            /\ ts' = PopToMark
            /\ viol' = viol \cup (IF e.body /\ ~IsUnit(e.ret) THEN ChkA(LastSinceMark, e.ret, "ResultAssignable", e.name) ELSE {})
       [] e.ev = "Exit" /\ e.kind = "Lambda" ->
            /\ scopes' = PopScope
            /\ ts' = Push(PopToMark, e.sig)
            /\ viol' = viol \cup (IF ~IsUnit(e.ret) THEN ChkA(LastSinceMark, e.ret, "ResultAssignable", "lambda") ELSE {})
       [] e.ev = "ParamDecl" ->
            /\ scopes' = BindVar(e.name, e.t, FALSE)
            /\ ts' = IF e.dflt THEN Pop(1) ELSE ts
            /\ viol' = viol \cup (IF e.dflt THEN ChkA(Peek(0), e.t, "ArgAssignable.Default", e.name) ELSE {}) \cup ChkB(e.t, "param")
       [] e.ev = "VarDecl" ->
            /\ scopes' = IF Len(scopes) = 1 THEN scopes ELSE BindVar(e.name, e.it, e.final)
            /\ ts' = Pop(1)
            /\ viol' = viol \cup ChkA(Peek(0), e.it, "InitAssignable", e.name) \cup ChkB(e.it, "var")
       [] e.ev = "Const" -> /\ UNCHANGED <<scopes, viol>> /\ ts' = Push(ts, ConstT(e))
       [] e.ev = "Bottom" -> /\ UNCHANGED <<scopes, viol>> /\ ts' = Push(ts, IF e.t = <<>> THEN Bot ELSE StripW(e.t))
       [] e.ev = "Var" ->
            LET r == LookupVar(e.name) IN
            /\ UNCHANGED scopes
            /\ ts' = Push(ts, IF r = <<>> THEN Bot ELSE r[1].t)
            /\ viol' = viol \cup Chk(r # <<>>, "Resolved.Var", e.name)
       [] e.ev = "Is" -> /\ UNCHANGED <<scopes, viol>> /\ ts' = Push(Pop(1), BoolT)
       [] e.ev = "BinOp" -> /\ UNCHANGED <<scopes, viol>> /\ ts' = Push(Pop(2), BoolT)
       [] e.ev = "Cond" ->
            /\ UNCHANGED scopes
            /\ ts' = Push(Pop(3), IF Assignable(Peek(1), e.t) /\ Assignable(Peek(0), e.t) THEN e.t
                                   ELSE [k |-> "U", n |-> "", a |-> <<Peek(1), Peek(0), e.t>>])
            /\ viol' = viol \cup (IF Assignable(Peek(1), e.t) /\ Assignable(Peek(0), e.t) THEN {} ELSE {<<p, i, "INFO.CondTypeNotUpperBound", "", Peek(1), e.t>>})
       [] e.ev = "Array" ->
            /\ UNCHANGED scopes
            /\ ts' = Push(Pop(e.nk), e.t)
            /\ viol' = viol \cup UNION {(IF e.t.a = <<>> THEN {} ELSE ChkA(Peek(e.nk - j), e.t.a[1], "ArgAssignable.ArrayElem", "")) : j \in 1..e.nk}
       [] e.ev = "New" ->
            LET known == Kind(e.t) = "C" /\ e.t.n \in DOMAIN CT
                fields == IF known THEN CT[e.t.n].fields ELSE <<>>
                m == IF known THEN ParamMap(e.t) ELSE EmptyMap IN
            /\ UNCHANGED scopes
            /\ ts' = Push(Pop(e.nk), e.t)
            /\ viol' = viol \cup Chk(known, "Resolved.Class", e.t.n) \cup ChkB(e.t, "new")
                            \cup (IF known THEN Chk(CT[e.t.n].kind \in {"regular", "builtin"}, "InstantiatedConcrete", e.t.n) ELSE {})
                            \cup (IF known /\ CT[e.t.n].kind # "builtin" THEN Chk(Len(fields) = e.nk, "ArityAdmitted.New", e.t.n) ELSE {})
                            \cup (IF known /\ Len(fields) = e.nk
                                  THEN UNION {ChkA(Peek(e.nk - j), Down(fields[j].t, m), "ArgAssignable.New", e.t.n \o "." \o fields[j].n) : j \in 1..e.nk}
                                  ELSE {})
       [] e.ev = "Super" ->
            LET known == Kind(e.t) = "C" /\ e.t.n \in DOMAIN CT
                fields == IF known THEN CT[e.t.n].fields ELSE <<>>
                m == IF known THEN ParamMap(e.t) ELSE EmptyMap IN
            /\ UNCHANGED scopes
            /\ ts' = Pop(e.nk)
            /\ viol' = viol \cup Chk(known, "Resolved.Class", e.t.n) \cup ChkB(e.t, "super")
                            \cup (IF known THEN Chk(~CT[e.t.n].final, "NoFinalSuper", e.t.n) ELSE {})
                            \cup (IF known /\ ~e.noargs /\ Len(fields) = e.nk
                                  THEN UNION {ChkA(Peek(e.nk - j), Down(fields[j].t, m), "ArgAssignable.Super", e.t.n \o "." \o fields[j].n) : j \in 1..e.nk}
                                  ELSE {})
                            \cup (IF known /\ ~e.noargs THEN Chk(Len(fields) = e.nk, "ArityAdmitted.Super", e.t.n) ELSE {})
       [] e.ev = "Field" ->
            LET r == FieldT(Peek(0), e.name) IN
            /\ UNCHANGED scopes
            /\ ts' = Push(Pop(1), IF r = <<>> THEN Bot ELSE r[1].t)
            /\ viol' = viol \cup Chk(r # <<>> \/ Peek(0).k = "N", "Resolved.Field", e.name)
       [] e.ev = "Call" /\ ~e.ref ->
            LET nrecv == IF e.recv THEN 1 ELSE 0
                r == IF e.recv THEN FunOf(Peek(e.nk), e.name) ELSE LookupFun(e.name)
                botrecv == e.recv /\ Peek(e.nk).k = "N" IN
            /\ UNCHANGED scopes
            /\ IF r = <<>> THEN /\ ts' = Push(Pop(e.nk + nrecv), Bot)
                                /\ viol' = viol \cup Chk(botrecv, "Resolved.Fun", e.name)
               ELSE LET fr == r[1].f  m == FunMap(fr, r[1].m, e.targs) IN
                    /\ ts' = Push(Pop(e.nk + nrecv), Up(fr.ret, m))
                    /\ viol' = viol \cup Chk(Covered(fr, e.argnames, IF e.recv THEN Peek(e.nk) ELSE Bot, e.recv), "ArityAdmitted.Call", e.name)
                                    \cup Chk(Len(fr.tp) = Len(e.targs), "ArityAdmitted.TypeArgs", e.name)
                                    \cup (IF Len(fr.tp) = Len(e.targs)
                                          THEN UNION {IF fr.tp[j].b # <<>> /\ ~(e.targs[j].k = "W" /\ e.targs[j].n \in {"in", "star"})
                                                      THEN ChkA(Plain(e.targs[j]), Up(fr.tp[j].b[1], m), "TypeArgWithinBound.Call", e.name \o "." \o fr.tp[j].n)
                                                      ELSE {} : j \in DOMAIN fr.tp}
                                          ELSE {})
                                    \cup UNION {ChkB(e.targs[j], "targ") : j \in DOMAIN e.targs}
                                    \cup UNION {LET pf == ParamFor(fr, e.argnames, j) IN
                                                IF pf = <<>> THEN V("ArityAdmitted.Call", e.name)
                                                ELSE ChkA(Peek(e.nk - j), Down(pf[1].t, m), "ArgAssignable.Call", e.name \o "." \o pf[1].n)
                                                : j \in 1..e.nk}
       [] e.ev = "Call" /\ e.ref ->
            LET nrecv == IF e.recv THEN 1 ELSE 0
                r == IF e.recv THEN (LET fd == FieldT(Peek(e.nk), e.name) IN IF fd = <<>> THEN <<>> ELSE <<fd[1].t>>)
                     ELSE (LET lv == LookupVar(e.name) IN IF lv = <<>> THEN <<>> ELSE <<lv[1].t>>)
                ft == IF r = <<>> THEN Bot ELSE Strip(r[1]) IN
            /\ UNCHANGED scopes
            /\ ts' = Push(Pop(e.nk + nrecv), IF ft.a = <<>> THEN Bot ELSE Strip(ft.a[Len(ft.a)]))
            /\ viol' = viol \cup Chk(r # <<>>, "Resolved.RefCallee", e.name)
                            \cup (IF r # <<>> THEN Chk(Len(ft.a) = e.nk + 1, "ArityAdmitted.RefCall", e.name) ELSE {})
                            \cup (IF r # <<>> /\ Len(ft.a) = e.nk + 1
                                  THEN UNION {LET A == ft.a[j] IN
                                              Chk(IF A.k = "W" THEN (IF A.n = "in" THEN Assignable(Peek(e.nk - j), A.a[1]) ELSE Peek(e.nk - j).k = "N")
                                                  ELSE Assignable(Peek(e.nk - j), A), "ArgAssignable.RefCall", e.name) : j \in 1..e.nk}
                                  ELSE {})
       [] e.ev = "FuncRef" ->
            /\ UNCHANGED <<scopes, viol>>
            /\ ts' = Push(Pop(IF e.recv THEN 1 ELSE 0), e.sig)
       [] e.ev = "Assign" ->
            LET nrecv == IF e.recv THEN 1 ELSE 0
                r == IF e.recv THEN (LET fd == FieldT(Peek(1), e.name) IN IF fd = <<>> THEN <<>> ELSE <<[t |-> fd[1].dn, final |-> fd[1].final]>>)
                     ELSE LookupVar(e.name) IN
            /\ UNCHANGED scopes
            /\ ts' = Push(Pop(1 + nrecv), UnitT)
            /\ viol' = viol \cup Chk(r # <<>> \/ (e.recv /\ Peek(1).k = "N"), "Resolved.AssignTarget", e.name)
                            \cup (IF r # <<>> THEN Chk(~r[1].final, "AssignTargetNonFinal", e.name)
                                                   \cup ChkA(Peek(0), r[1].t, "AssignAssignable", e.name) ELSE {})
       [] OTHER -> /\ UNCHANGED <<scopes, ts>> /\ viol' = viol \cup V("UnknownEvent", e.ev)
  /\ i' = i + 1 /\ p' = p
NextProg ==
  /\ i > Len(Ev) /\ p < Len(Progs)
  /\ p' = p + 1 /\ i' = 1 /\ scopes' = <<GlobalScope(p + 1)>> /\ ts' = <<>> /\ viol' = viol
Next == Step \/ NextProg
Spec == Init /\ [][Next]_vars
Done == (p = Len(Progs) /\ i > Len(Ev)) => PrintT(ToJson([viol |-> viol]))
StackOK == i > Len(Ev) => Len(scopes) = 1
=======================================================================
