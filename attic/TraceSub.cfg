SPECIFICATION Spec
INVARIANT Ok
CHECK_DEADLOCK FALSE
