import sys, json, itertools, random
sys.path.insert(0,'/repo')
exec(open('c06w.py').read().split("cases=[]")[0].replace("sys.path.insert(0,'/tmp/scratch/repo2')","pass"))
from src.ir import type_utils as tu
from src import utils
from ser_probe_types import ser_t
def occ(ct,t,pos,acc):
    if t['k']=='V': acc.append((t['n'],pos)); return
    if t['k']=='W':
        if t['a']: occ(ct,t['a'][0], pos if t['n']=='out' else flip(pos), acc)
        return
    for i,a in enumerate(t['a']):
        occ(ct,a, comp(pos,ct[t['n']]['tp'][i]['v']), acc)
def flip(p): return {'out':'in','in':'out','inv':'inv'}[p]
def comp(p,v):
    if p=='inv' or v=='inv': return 'inv'
    return v if p=='out' else flip(v)
def declwf(ct):
    for n,e in ct.items():
        vs={p['n']:p['v'] for p in e['tp']}
        for s in e['sup']:
            acc=[]; occ(ct,s,'out',acc)
            for (x,pos) in acc:
                if vs[x]=='out' and pos!='out': return False
                if vs[x]=='in' and pos!='in': return False
    return True
combos=list(itertools.product(['inv','out','in'],['inv','out','in'],[V("T"),C("Int"),C("A",V("T"))],['inv','out'],['inv','in'],[V("X"),V("Y"),C("String")]))
random.seed(3); random.shuffle(combos)
cases=[]
n=0
for (vA,vB,argB,vD1,vD2,argD) in combos[:int(sys.argv[1])]:
    ct,order=table(vA,vB,argB,vD1,vD2,argD)
    if not declwf(ct): continue
    T=Table(ct,order)
    pool=[T.decl[x].get_type() for x in order]+[BUILTIN[b] for b in ('Any','Number','Int','String')]
    U=[u for u in universe(ct) if wf(ct,u)]
    qs=[]
    for u in U:
        t=T.build(u,{})
        seen=set()
        for seed in range(6):
            utils.random.r.seed(seed)
            try:
                res=tu.find_subtypes(t, pool, include_self=False, concrete_only=True)
            except Exception as e:
                qs.append({"t":u,"res":[], "exc":type(e).__name__+str(e)[:60]}); continue
            for r in res:
                key=json.dumps(ser_t(r),sort_keys=True)
                if key not in seen:
                    seen.add(key)
        qs.append({"t":u,"res":[json.loads(k) for k in seen],"exc":""})
        n+=len(seen)
    cases.append({"ct":ct,"q":qs})
json.dump({"cases":cases}, open("c09.json","w"))
print(len(cases), n, sum(1 for c in cases for q in c['q'] if q['exc']))
for c in cases:
    for q in c['q']:
        if q['exc']: print(q['exc']); break
