---------------------------- MODULE HContextProto ----------------------------
\* Pre-study prototype (NOT framework code): symbol table as a state machine; G (history generation) and V (trace validation).
EXTENDS Naturals, Sequences, FiniteSets, TLC, Json, IOUtils

Kinds == {"types", "funcs", "lambdas", "vars", "classes"}
Mirrored == {"funcs", "vars", "classes"}
AllKinds == Kinds \cup {"decls"}
NSs == {<<"g">>, <<"g", "f">>, <<"g", "C">>, <<"g", "C", "m">>}
Names == {"a", "f", "C", "m"}
Vals == 1..3
None == 0

\* association list helpers: sequences of <<name, val>>
Has(al, n) == \E j \in DOMAIN al : al[j][1] = n
Get(al, n) == al[CHOOSE j \in DOMAIN al : al[j][1] = n][2]
Put(al, n, v) == IF Has(al, n) THEN [j \in DOMAIN al |-> IF al[j][1] = n THEN <<n, v>> ELSE al[j]] ELSE Append(al, <<n, v>>)
Del(al, n) == SelectSeq(al, LAMBDA x : x[1] # n)
RECURSIVE Merge(_, _)
Merge(base, over) == IF over = <<>> THEN base ELSE Merge(Put(base, over[1][1], over[1][2]), Tail(over))

EmptyNS == [k \in AllKinds |-> <<>>]
Prefix(ns, j) == SubSeq(ns, 1, j)

\* ---- pure transition functions on (ctx, rev)
AddF(ctx, ns, k, n, v) ==
  LET c1 == [ctx EXCEPT ![ns][k] = Put(@, n, v)] IN
  IF k \in Mirrored THEN [c1 EXCEPT ![ns]["decls"] = Put(@, n, v)] ELSE c1
RemF(ctx, ns, k, n) ==
  LET c1 == [ctx EXCEPT ![ns][k] = Del(@, n)] IN
  IF k \in Mirrored THEN [c1 EXCEPT ![ns]["decls"] = Del(@, n)] ELSE c1

Lookup(ctx, ns, n) ==
  LET hits == {j \in 1..Len(ns) : Has(ctx[Prefix(ns, j)]["decls"], n)} IN
  IF hits = {} THEN <<>> ELSE LET j == CHOOSE j \in hits : \A h \in hits : h <= j IN <<Prefix(ns, j), Get(ctx[Prefix(ns, j)]["decls"], n)>>
Current(ctx, ns, k) == ctx[ns][k]
RECURSIVE EnclosingUpTo(_, _, _, _)
EnclosingUpTo(ctx, ns, k, j) == IF j = 0 THEN <<>> ELSE Merge(EnclosingUpTo(ctx, ns, k, j - 1), ctx[Prefix(ns, j)][k])
Enclosing(ctx, ns, k) == EnclosingUpTo(ctx, ns, k, Len(ns))

\* ================= G: enumerate histories =================
VARIABLES hist
Op == [op : {"add"}, ns : NSs, k : Kinds, n : Names, v : Vals] \cup [op : {"rem"}, ns : NSs, k : Kinds, n : Names, v : {None}]
\* reduced alphabet for the prototype
SmallOp == {o \in Op : o.k \in {"vars", "funcs"} /\ o.n \in {"a", "f"} /\ o.v \in {None, 1, 2} /\ o.ns # <<"g", "C">>}
GInit == hist = <<>>
GNext == \E o \in SmallOp : hist' = Append(hist, o)
GSpec == GInit /\ [][GNext]_hist
MaxLen == 3
GBound == Len(hist) <= MaxLen
GEmit == Len(hist) = MaxLen => PrintT(ToJson(hist))

\* ================= V: validate recorded observations =================
Trace == JsonDeserialize(IOEnv.TRACE_FILE).cases
RECURSIVE Replay(_, _, _)
Replay(ctx, ops, j) ==          \* ctx after the first j operations
  IF j = 0 THEN ctx
  ELSE LET c == Replay(ctx, ops, j - 1)  o == ops[j] IN
       IF o.op = "add" THEN AddF(c, o.ns, o.k, o.n, o.v) ELSE RemF(c, o.ns, o.k, o.n)
Ctx0 == [ns \in NSs |-> EmptyNS]
ToAL(x) == x    \* observations are already sequences of <<name, val>>
BadCase(c) ==
  {<<j, q>> \in (DOMAIN c.ops) \X {"lookup", "current", "enclosing"} :
     LET ctx == Replay(Ctx0, c.ops, j)  ob == c.obs[j] IN
     CASE q = "lookup" -> \E x \in DOMAIN ob.lookup :
                             LET l == ob.lookup[x]  r == Lookup(ctx, l.ns, l.n) IN
                             (IF r = <<>> THEN l.res # <<>> ELSE l.res # <<r[1], r[2]>>)
       [] q = "current" -> \E x \in DOMAIN ob.current : LET l == ob.current[x] IN l.res # Current(ctx, l.ns, l.k)
       [] q = "enclosing" -> \E x \in DOMAIN ob.enclosing : LET l == ob.enclosing[x] IN l.res # Enclosing(ctx, l.ns, l.k)}
VBad == {<<c, b>> \in (DOMAIN Trace) \X ((1..10) \X {"lookup", "current", "enclosing"}) : b \in BadCase(Trace[c])}
=======================================================================
