import sys, json, itertools, random
sys.path.insert(0,'/repo')
exec(open('c06w.py').read().split("cases=[]")[0].replace("sys.path.insert(0,'/tmp/scratch/repo2')","pass"))
from src.ir import type_utils as tu, kotlin_types as kt
from src import utils
from src.generators.config import cfg
from ser_probe_types import ser_t
ct={
 "Any": {"tp": [], "sup": []}, "Number": {"tp": [], "sup": [C("Any")]}, "Int": {"tp": [], "sup": [C("Number")]}, "String": {"tp": [], "sup": [C("Any")]},
 "A": {"tp": [{"n":"T","v":"inv","b":[]}], "sup": []},
 "B": {"tp": [{"n":"T","v":"out","b":[]}], "sup": [C("A",C("Int"))]},
 "Cc": {"tp": [], "sup": [C("A", C("Number"))]},
 "E": {"tp": [{"n":"T","v":"inv","b":[C("Number")]}], "sup": []},
 "F": {"tp": [{"n":"T1","v":"inv","b":[]},{"n":"T2","v":"inv","b":[V("T1")]}], "sup": []},
 "G": {"tp": [{"n":"T1","v":"inv","b":[]},{"n":"T2","v":"inv","b":[C("A",V("T1"))]}], "sup": []},
 "H": {"tp": [{"n":"T","v":"out","b":[C("Number")]},{"n":"S","v":"in","b":[]}], "sup": []},
 "I": {"tp": [{"n":"T1","v":"inv","b":[C("Number")]},{"n":"T2","v":"inv","b":[V("T1")]},{"n":"T3","v":"inv","b":[V("T2")]}], "sup": []},
}
order=["A","B","Cc","E","F","G","H","I"]
# Table.build needs bounds referencing earlier params: extend
class Table2(Table):
    def __init__(self, ct, order):
        self.ct=ct; self.decl={}; self.tparams={}
        for name in order:
            e=ct[name]; env={}; tps=[]
            for p in e['tp']:
                t=tp.TypeParameter(p['n'], VAR[p['v']], self.build(p['b'][0], env) if p['b'] else None)
                env[p['n']]=t; tps.append(t)
            self.tparams[name]=env
            sups=[ast.SuperClassInstantiation(self.build(s, env), []) for s in e['sup']]
            self.decl[name]=ast.ClassDeclaration(name, sups, ast.ClassDeclaration.REGULAR, fields=[], functions=[], is_final=False, type_parameters=tps)
T=Table2(ct,order)
pool=[T.decl[x] for x in order]+[BUILTIN[b] for b in ('Any','Number','Int','String')]
qs=[]
for name in ["E","F","G","H","I","B","A"]:
    tc=T.decl[name].get_type()
    for vc in ("none","empty"):
        for seed in range(40):
            utils.random.r.seed(seed)
            try:
                r,m=tu.instantiate_type_constructor(tc, pool, variance_choices=None if vc=="none" else {})
                qs.append({"cls":name,"vc":vc,"res":ser_t(r),"exc":""})
            except Exception as e:
                qs.append({"cls":name,"vc":vc,"res":C("Any"),"exc":type(e).__name__+':'+str(e)[:80]})
json.dump({"ct":ct,"q":qs}, open("c08.json","w"))
print(len(qs), set(q['exc'] for q in qs if q['exc']))
