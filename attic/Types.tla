---------------------------- MODULE Types ----------------------------
EXTENDS Naturals, Sequences, FiniteSets, TLC

Cls(n, a) == [k |-> "C", n |-> n, a |-> a]
Wild(v, a) == [k |-> "W", n |-> v, a |-> a]
Var(n, a) == [k |-> "V", n |-> n, a |-> a]
Bot == [k |-> "N", n |-> "Nothing", a |-> <<>>]
TopT == Cls("Any", <<>>)

Flip(v) == CASE v = "out" -> "in" [] v = "in" -> "out" [] OTHER -> "inv"

\* does t mention a variable that sigma maps to a projection?
RECURSIVE Captures(_, _)
Captures(t, m) ==
  IF t.k = "V" THEN t.n \in DOMAIN m /\ m[t.n].k = "W"
  ELSE \E i \in DOMAIN t.a : Captures(t.a[i], m)

RECURSIVE Subst(_, _)
Subst(t, m) ==
  IF t.k = "V" THEN (IF t.n \in DOMAIN m THEN m[t.n] ELSE Var(t.n, [i \in DOMAIN t.a |-> Subst(t.a[i], m)]))
  ELSE [k |-> t.k, n |-> t.n, a |-> [i \in DOMAIN t.a |-> Subst(t.a[i], m)]]

\* Upper / lower approximation of t[m] where m may map variables to projections (capture approximation)
RECURSIVE Up(_, _, _), Down(_, _, _)
Up(CT, t, m) ==
  IF ~Captures(t, m) THEN Subst(t, m)
  ELSE IF t.k = "V" THEN (LET p == m[t.n] IN IF p.n = "out" THEN p.a[1] ELSE TopT)
  ELSE IF t.k = "W" THEN (IF t.n = "out" THEN Wild("out", <<Up(CT, t.a[1], m)>>)
                          ELSE IF t.n = "in" THEN Wild("in", <<Down(CT, t.a[1], m)>>) ELSE t)
  ELSE Cls(t.n, [i \in DOMAIN t.a |->
          LET ai == t.a[i]  v == CT[t.n].tp[i].v IN
          IF ~Captures(ai, m) THEN Subst(ai, m)
          ELSE IF ai.k = "W" THEN Up(CT, ai, m)
          ELSE IF v = "out" THEN Up(CT, ai, m)
          ELSE IF v = "in" THEN Down(CT, ai, m)
          ELSE IF ai.k = "V" THEN m[ai.n]
          ELSE Wild("out", <<Up(CT, ai, m)>>)])
Down(CT, t, m) ==
  IF ~Captures(t, m) THEN Subst(t, m)
  ELSE IF t.k = "V" THEN (LET p == m[t.n] IN IF p.n = "in" THEN p.a[1] ELSE Bot)
  ELSE IF t.k = "W" THEN (IF t.n = "out" THEN Wild("out", <<Down(CT, t.a[1], m)>>)
                          ELSE IF t.n = "in" THEN Wild("in", <<Up(CT, t.a[1], m)>>) ELSE t)
  ELSE IF \E i \in DOMAIN t.a : Captures(t.a[i], m) /\ t.a[i].k # "W" /\ CT[t.n].tp[i].v = "inv" THEN Bot
  ELSE Cls(t.n, [i \in DOMAIN t.a |->
          LET ai == t.a[i]  v == CT[t.n].tp[i].v IN
          IF ~Captures(ai, m) THEN Subst(ai, m)
          ELSE IF ai.k = "W" THEN Down(CT, ai, m)
          ELSE IF v = "out" THEN Down(CT, ai, m)
          ELSE Up(CT, ai, m)])

ParamMap(CT, S) == LET ps == CT[S.n].tp IN
   [x \in {ps[i].n : i \in DOMAIN ps} |-> S.a[CHOOSE i \in DOMAIN ps : ps[i].n = x]]

RECURSIVE Sub(_, _, _), Cont(_, _, _, _)
Sub(CT, S, T) ==
  \/ S = T
  \/ S.k = "N"
  \/ /\ S.k = "C"
     /\ \/ /\ T.k = "C" /\ S.n = T.n /\ Len(S.a) = Len(T.a)
           /\ \A i \in DOMAIN S.a : Cont(CT, S.a[i], T.a[i], CT[S.n].tp[i].v)
        \/ \E i \in DOMAIN CT[S.n].sup : Sub(CT, Up(CT, CT[S.n].sup[i], ParamMap(CT, S)), T)
  \/ /\ S.k = "V" /\ Len(S.a) = 1 /\ Sub(CT, S.a[1], T)

Cont(CT, A, B, v) ==
  IF B.k = "W" THEN
     CASE B.n = "star" -> TRUE
       [] B.n = "out" -> IF A.k = "W" THEN A.n = "out" /\ Sub(CT, A.a[1], B.a[1]) ELSE Sub(CT, A, B.a[1])
       [] B.n = "in"  -> IF A.k = "W" THEN A.n = "in" /\ Sub(CT, B.a[1], A.a[1]) ELSE Sub(CT, B.a[1], A)
  ELSE
     CASE v = "inv" -> A = B
       [] v = "out" -> IF A.k = "W" THEN A.n = "out" /\ Sub(CT, A.a[1], B) ELSE Sub(CT, A, B)
       [] v = "in"  -> IF A.k = "W" THEN A.n = "in" /\ Sub(CT, B, A.a[1]) ELSE Sub(CT, B, A)
=======================================================================
