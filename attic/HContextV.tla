---------------------------- MODULE HContextV ----------------------------
EXTENDS HContextProto
ASSUME PrintT(<<"VBAD", Cardinality(VBad), VBad>>)
VSpec == hist = <<>> /\ [][UNCHANGED hist]_hist
=======================================================================
