import random; random.seed(12345)
import sys, json
sys.path.insert(0,'/tmp/scratch/repo2')
sys.path.insert(0,'/root/prestudy'); sys.setrecursionlimit(20000)
from src import utils
from src.generators.generator import Generator
from ser2 import ser_program
lang=sys.argv[1]; lo=int(sys.argv[2]); hi=int(sys.argv[3]); out=sys.argv[4]
utils.random.remove_reserved_words(lang)
progs=[]
for seed in range(lo,hi):
    utils.random.r.seed(seed); utils.random.reset_word_pool()
    p=Generator(language=lang).generate()
    d=ser_program(p); d['seed']=seed
    progs.append(d)
json.dump({"progs":progs}, open(out,'w'))
print(lang, len(progs), sum(len(p['ev']) for p in progs))
