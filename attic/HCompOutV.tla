---------------------------- MODULE HCompOutV ----------------------------
EXTENDS HCompOutProto
ASSUME PrintT(ToJson(Report))
VSpec == cs = <<>> /\ [][UNCHANGED cs]_cs
=======================================================================
