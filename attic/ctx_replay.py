import sys, json
sys.path.insert(0,'/repo')
from src.ir import ast as _a
from src.ir.context import Context, get_decl
from src.ir import ast, types as tp
from src.ir import kotlin_types as kt
hists=[]
for line in open(sys.argv[1]):
    line=line.strip()
    if line.startswith('"['): hists.append(json.loads(json.loads(line)))
    elif line.startswith('['): hists.append(json.loads(line))
seen=set(); H=[]
for h in hists:
    k=json.dumps(h,sort_keys=True)
    if k not in seen: seen.add(k); H.append(h)
NS=[("g",),("g","f"),("g","C"),("g","C","m")]
KINDS={"types":("add_type","remove_type","get_types"),"funcs":("add_func","remove_func","get_funcs"),"vars":("add_var","remove_var","get_vars")}
def mkval(kind, name, v):
    # distinct real objects per (kind,name,v)
    if kind=="vars": return ast.VariableDeclaration(name, ast.IntegerConstant(v, kt.Integer), var_type=kt.Integer)
    if kind=="funcs": return ast.FunctionDeclaration(name, [], kt.Unit, None, ast.FunctionDeclaration.FUNCTION)
    if kind=="types": return tp.TypeParameter(name+str(v))
cases=[]
for h in H:
    ctx=Context(); ids={}
    obs=[]
    for o in h:
        ns=tuple(o['ns'])
        add,rem,get=KINDS[o['k']]
        if o['op']=='add':
            val=mkval(o['k'],o['n'],o['v']); ids[id(val)]=o['v']; val._vid=o['v']
            getattr(ctx,add)(ns,o['n'],val)
        else:
            getattr(ctx,rem)(ns,o['n'])
        def al(d): return [[k, getattr(x,'_vid',None) if not isinstance(x,tp.TypeParameter) else int(x.name[-1])] for k,x in d.items()]
        ob={"lookup":[],"current":[],"enclosing":[]}
        for n_ in NS:
            for name in ("a","f"):
                r=get_decl(ctx,n_,name)
                ob["lookup"].append({"ns":list(n_),"n":name,"res":[] if r is None else [list(r[0]), r[1]._vid]})
            for k_,(a_,r_,g_) in KINDS.items():
                ob["current"].append({"ns":list(n_),"k":k_,"res":al(getattr(ctx,g_)(n_,only_current=True))})
                ob["enclosing"].append({"ns":list(n_),"k":k_,"res":al(getattr(ctx,g_)(n_))})
        obs.append(ob)
    cases.append({"ops":h,"obs":obs})
json.dump({"cases":cases}, open(sys.argv[2],'w'))
print('histories',len(H),'ops',sum(len(h) for h in H))
