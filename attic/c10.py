import sys, json, itertools, random
sys.path.insert(0,'/repo')
exec(open('c06w.py').read().split("cases=[]")[0].replace("sys.path.insert(0,'/tmp/scratch/repo2')","pass"))
from src.ir import type_utils as tu, kotlin_types as kt
from ser_probe_types import ser_t
fac=kt.KotlinBuiltinFactory()
ct,order=table('inv','inv',V("T"),'inv','inv',V("X"))
T=Table(ct,order)
X=tp.TypeParameter("X"); Y=tp.TypeParameter("Y", bound=kt.Number); Z=tp.TypeParameter("Z", bound=T.build(C("A",C("Number")),{}))
env={'X':X,'Y':Y,'Z':Z}
vX,vY,vZ=V("X"),V("Y",C("Number")),V("Z",C("A",C("Number")))
pats=[vX,vY,vZ,C("A",vX),C("A",vY),C("B",vX),C("D",vX,vY),C("D",vX,vX),C("D",vY,vX),C("A",W("out",vX)),C("A",W("in",vX)),C("A",W("out",vY)),
      C("A",C("A",vX)),C("A",C("B",vY)),C("D",C("A",vX),vX),C("D",vX,C("A",vX)),C("A",vZ),C("D",vZ,vY), C("D",C("Int"),vX), C("D",vX,C("Int"))]
U=[u for u in universe(ct) if wf(ct,u)]
qs=[]
for p in pats:
    po=T.build(p,env)
    for u in U:
        uo=T.build(u,{})
        for same in (True,False):
            try:
                r=tu.unify_types(uo,po,fac,same_type=same)
                exc=""
            except Exception as e:
                r={}; exc=type(e).__name__+':'+str(e)[:50]
            qs.append({"t1":u,"t2":p,"same":same,"sig":[[k.name,ser_t(v)] for k,v in r.items()],"exc":exc})
json.dump({"ct":ct,"q":qs}, open("c10.json","w"))
print(len(qs), sum(1 for q in qs if q['sig']), sum(1 for q in qs if q['exc']))
print(set(q['exc'] for q in qs if q['exc']))
