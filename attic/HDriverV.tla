---------------------------- MODULE HDriverV ----------------------------
EXTENDS HDriverProto
ASSUME PrintT(ToJson(Report))
VSpec == sc = <<>> /\ [][UNCHANGED sc]_sc
=======================================================================
