import sys
sys.path.insert(0,"/repo")
from src.ir import types as tp
def ser_t(t):
    if t is None: return []
    if isinstance(t, tp.WildCardType):
        v={0:'star' if t.bound is None else 'inv',1:'out',2:'in'}[t.variance.value]
        return {"k":"W","n":v,"a":[ser_t(t.bound)] if t.bound is not None else []}
    if isinstance(t, tp.TypeParameter):
        return {"k":"V","n":t.name,"a":[ser_t(t.bound)] if t.bound is not None else []}
    if isinstance(t, tp.ParameterizedType):
        return {"k":"C","n":t.name,"a":[ser_t(a) for a in t.type_args]}
    if isinstance(t, tp.TypeConstructor):
        return {"k":"K","n":t.name,"a":[]}
    if isinstance(t, tp.Builtin):
        if getattr(t,'primitive',False): return {"k":"P","n":t.get_name(),"a":[]}
        return {"k":"C","n":t.name,"a":[]}
    if isinstance(t, tp.NothingType): return {"k":"N","n":"Nothing","a":[]}
    if isinstance(t, tp.SimpleClassifier): return {"k":"C","n":t.name,"a":[]}
    raise Exception(type(t))
