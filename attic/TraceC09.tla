---------------------------- MODULE TraceC09 ----------------------------
EXTENDS Types, Json, IOUtils, TLCExt
Data == JsonDeserialize(IOEnv.TRACE_FILE)
Cases == Data.cases
Bad(cs) == {<<i,j>> \in {<<i,j>> \in (DOMAIN cs.q) \X (1..40) : j \in DOMAIN cs.q[i].res} : ~Sub(cs.ct, cs.q[i].res[j], cs.q[i].t) \/ cs.q[i].res[j].k = "K"}
ASSUME \A c \in DOMAIN Cases : LET b == Bad(Cases[c]) IN PrintT(ToJson([c |-> c, n |-> Cardinality(b), w |-> {<<Cases[c].q[x[1]].t, Cases[c].q[x[1]].res[x[2]]>> : x \in b}]))
VARIABLE c
Spec == c = 1 /\ [][UNCHANGED c]_c
=======================================================================
