---------------------------- MODULE HGenProto ----------------------------
\* Pre-study prototype (NOT framework code): one path through the generator's call tree.
\* State = the call currently being expanded.  Termination of every path = termination of generation (finite branching).
EXTENDS Naturals, TLC
CONSTANTS MaxDepth, ModelZeroCostReceiver
VARIABLES r, d, ol, xv, done
vars == <<r, d, ol, xv, done>>
\* r: routine; d: depth counter; ol: only_leaves; xv: exclude_var
Leaf(dd, o) == dd >= MaxDepth \/ o
Init == r = "generate_expr" /\ d = 2 /\ ol = FALSE /\ xv = FALSE /\ done = FALSE
Call(rr, dd, o, x) == r' = rr /\ d' = dd /\ ol' = o /\ xv' = x /\ done' = FALSE
Stop == done' = TRUE /\ UNCHANGED <<r, d, ol, xv>>
Next ==
  /\ ~done
  /\ CASE r = "generate_expr" ->
            \/ Stop                                                             \* constant
            \/ Call("gen_new", d, ol, xv)
            \/ (~xv /\ ~ol /\ Call("gen_variable", d, ol, xv))
            \/ (~Leaf(d, ol) /\ \/ Call("gen_field_access", d, ol, xv)
                                \/ Call("gen_conditional", d, ol, xv)
                                \/ Call("gen_func_call", d, ol, xv)
                                \/ Call("gen_binop", d, ol, xv))
            \/ Call("gen_void", d, ol, xv)                                      \* only for the void type: any depth
       [] r = "gen_variable" -> Stop \/ Call("generate_expr", d, ol, TRUE)       \* zero cost, but exclude_var breaks the cycle
       [] r = "gen_new" -> \/ Stop                                              \* no fields / bottom cut
                           \/ (d + 1 <= 2 * MaxDepth /\ Call("generate_expr", d + 1, ol, FALSE))  \* a constructor argument
                           \/ Call("generate_expr", d + 1, ol, FALSE) /\ d + 1 <= 2 * MaxDepth + 1 \* lambda body
       [] r = "gen_field_access" -> Call("generate_expr", d + 1, ol, FALSE)     \* receiver, inside depth+1
       [] r = "gen_conditional" -> Call("generate_expr", d + 3, ol, FALSE)
       [] r = "gen_binop" -> Call("generate_expr", d + 1, ol, FALSE)
       [] r = "gen_func_call" ->
            \/ Call("generate_expr", d + 1, ol, FALSE)                          \* an argument
            \/ (ModelZeroCostReceiver /\ Call("generate_expr", d, ol, FALSE))    \* the receiver: SAME depth (generator.py:1508-1511)
            \/ (~ModelZeroCostReceiver /\ Call("generate_expr", d + 1, ol, FALSE))
            \/ Stop
       [] r = "gen_void" -> Stop \/ Call("gen_func_call", d, ol, xv)
Spec == Init /\ [][Next]_vars /\ WF_vars(Next)
DepthBounded == d <= 2 * MaxDepth + 4
Termination == <>done
=======================================================================
