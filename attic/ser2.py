"""Pre-study prototype (NOT framework code): dumb serialiser ast.Program -> class table + walk events."""
import sys, json
sys.path.insert(0, '/repo')
from src.ir import ast, types as tp
from src.ir import kotlin_types as kt


def ser_t(t):
    if t is None:
        return []
    if isinstance(t, tp.WildCardType):
        if t.bound is None:
            return {"k": "W", "n": "star", "a": []}
        v = {0: 'inv', 1: 'out', 2: 'in'}[t.variance.value]
        return {"k": "W", "n": v, "a": [ser_t(t.bound)]}
    if isinstance(t, tp.TypeParameter):
        return {"k": "V", "n": t.name, "a": [ser_t(t.bound)] if t.bound is not None else []}
    if isinstance(t, tp.ParameterizedType):
        name = t.name
        if isinstance(t.t_constructor, kt.SpecializedArrayType):
            name = "SArray"
        return {"k": "C", "n": name, "a": [ser_t(a) for a in t.type_args]}
    if isinstance(t, tp.TypeConstructor):
        return {"k": "K", "n": t.name, "a": []}
    if isinstance(t, tp.Builtin):
        if getattr(t, 'primitive', False):
            return {"k": "P", "n": t.name, "a": []}
        return {"k": "C", "n": t.name, "a": []}
    if isinstance(t, tp.NothingType):
        return {"k": "N", "n": "Nothing", "a": []}
    if isinstance(t, tp.SimpleClassifier):
        return {"k": "C", "n": t.name, "a": []}
    raise Exception(type(t))


VAR = {0: 'inv', 1: 'out', 2: 'in'}


def ser_tparams(tps):
    return [{"n": t.name, "v": VAR[t.variance.value], "b": [ser_t(t.bound)] if t.bound is not None else []} for t in tps]


def ser_fun(f):
    return {"n": f.name, "tp": ser_tparams(f.type_parameters),
            "params": [{"n": p.name, "t": ser_t(p.param_type), "vararg": bool(p.vararg), "dflt": p.default is not None} for p in f.params],
            "ret": ser_t(f.get_type()), "abstract": f.body is None, "final": bool(f.is_final), "override": bool(f.override)}


def builtin_table(fac, maxfun=4):
    ct = {}
    def add(t):
        if isinstance(t, tp.ParameterizedType):
            tc = t.t_constructor
            name = "SArray" if isinstance(tc, kt.SpecializedArrayType) else tc.name
            ct.setdefault(name, {"kind": "builtin", "final": True, "tp": ser_tparams(tc.type_parameters),
                                 "sup": [ser_t(s) for s in tc.supertypes], "fields": [], "funs": []})
        elif isinstance(t, tp.TypeConstructor):
            ct.setdefault(t.name, {"kind": "builtin", "final": True, "tp": ser_tparams(t.type_parameters),
                                   "sup": [ser_t(s) for s in t.supertypes], "fields": [], "funs": []})
        elif getattr(t, 'primitive', False):
            return
        else:
            if t.name in ct:
                return
            ct[t.name] = {"kind": "builtin", "final": True, "tp": [],
                          "sup": [ser_t(s) for s in t.supertypes], "fields": [], "funs": []}
            for s in t.supertypes:
                add(s)
    for t in fac.get_non_nothing_types():
        add(t)
    add(fac.get_void_type())
    for i in range(maxfun + 1):
        add(fac.get_function_type(i))
    return ct


class Walker:
    def __init__(self):
        self.ev = []

    def e(self, **k):
        self.ev.append(k)

    def walk(self, n):
        if isinstance(n, ast.VariableDeclaration):
            self.walk(n.expr)
            self.e(ev="VarDecl", name=n.name, final=bool(n.is_final), vt=ser_t(n.var_type), it=ser_t(n.inferred_type))
        elif isinstance(n, ast.FunctionDeclaration):
            self.e(ev="Enter", kind="Fun", name=n.name, tps=ser_tparams(n.type_parameters), t=[])
            for p in n.params:
                if p.default is not None:
                    self.walk(p.default)
                self.e(ev="ParamDecl", name=p.name, t=ser_t(p.param_type), vararg=bool(p.vararg), dflt=p.default is not None)
            if n.body is not None:
                self.walk(n.body)
            self.e(ev="Exit", kind="Fun", name=n.name, body=n.body is not None, ret=ser_t(n.get_type()),
                   block=isinstance(n.body, ast.Block), sig=ser_fun(n))
        elif isinstance(n, ast.Lambda):
            self.e(ev="Enter", kind="Lambda", name=n.name, tps=[], t=[])
            for p in n.params:
                self.e(ev="ParamDecl", name=p.name, t=ser_t(p.param_type), vararg=False, dflt=False)
            if n.body is not None:
                self.walk(n.body)
            self.e(ev="Exit", kind="Lambda", name=n.name, body=True, ret=ser_t(n.ret_type),
                   block=isinstance(n.body, ast.Block), sig=ser_t(n.signature))
        elif isinstance(n, ast.ClassDeclaration):
            self.e(ev="Enter", kind="Class", name=n.name, tps=ser_tparams(n.type_parameters), t=[])
            for s in n.superclasses:
                for a in (s.args or []):
                    self.walk(a)
                self.e(ev="Super", t=ser_t(s.class_type), nk=len(s.args or []), noargs=s.args is None)
            for f in n.functions:
                self.walk(f)
            self.e(ev="Exit", kind="Class", name=n.name, body=True, ret=[], block=False, sig=[])
        elif isinstance(n, ast.Block):
            self.e(ev="Enter", kind="Block", name="", tps=[], t=[])
            for c in n.body:
                self.walk(c)
            self.e(ev="Exit", kind="Block", name="", body=True, ret=[], block=True, sig=[])
        elif isinstance(n, ast.Conditional):
            self.walk(n.cond)
            sc = isinstance(n.cond, ast.Is) and isinstance(n.cond.lexpr, ast.Variable) and not n.cond.operator.is_not
            self.e(ev="Enter", kind="True", name=n.cond.lexpr.name if sc else "", tps=[], t=[ser_t(n.cond.rexpr)] if sc else [])
            self.walk(n.true_branch)
            self.e(ev="Exit", kind="True", name="", body=True, ret=[], block=False, sig=[])
            self.e(ev="Enter", kind="False", name="", tps=[], t=[])
            self.walk(n.false_branch)
            self.e(ev="Exit", kind="False", name="", body=True, ret=[], block=False, sig=[])
            self.e(ev="Cond", t=ser_t(n.inferred_type))
        elif isinstance(n, ast.Is):
            self.walk(n.lexpr)
            self.e(ev="Is", t=ser_t(n.rexpr))
        elif isinstance(n, ast.BinaryOp):
            self.walk(n.lexpr)
            self.walk(n.rexpr)
            self.e(ev="BinOp", op=str(n.operator), kind=type(n).__name__)
        elif isinstance(n, ast.Variable):
            self.e(ev="Var", name=n.name)
        elif isinstance(n, ast.BottomConstant):
            self.e(ev="Bottom", t=ser_t(n.t))
        elif isinstance(n, ast.IntegerConstant):
            self.e(ev="Const", t=ser_t(n.integer_type), lit="int")
        elif isinstance(n, ast.RealConstant):
            self.e(ev="Const", t=ser_t(n.real_type), lit="real")
        elif isinstance(n, ast.BooleanConstant):
            self.e(ev="Const", t=[], lit="bool")
        elif isinstance(n, ast.CharConstant):
            self.e(ev="Const", t=[], lit="char")
        elif isinstance(n, ast.StringConstant):
            self.e(ev="Const", t=[], lit="string")
        elif isinstance(n, ast.ArrayExpr):
            for c in n.exprs:
                self.walk(c)
            self.e(ev="Array", t=ser_t(n.array_type), nk=len(n.exprs))
        elif isinstance(n, ast.New):
            for a in n.args:
                self.walk(a)
            self.e(ev="New", t=ser_t(n.class_type), nk=len(n.args), infer=bool(getattr(n.class_type, 'can_infer_type_args', False)))
        elif isinstance(n, ast.FieldAccess):
            self.walk(n.expr)
            self.e(ev="Field", name=n.field)
        elif isinstance(n, ast.FunctionCall):
            if n.receiver is not None:
                self.walk(n.receiver)
            for a in n.args:
                self.walk(a.expr)
            self.e(ev="Call", name=n.func, recv=n.receiver is not None, ref=bool(n.is_ref_call), nk=len(n.args),
                   argnames=[a.name or "" for a in n.args], targs=[ser_t(t) for t in (n.type_args or [])],
                   infer=bool(n.can_infer_type_args))
        elif isinstance(n, ast.Assignment):
            if n.receiver is not None:
                self.walk(n.receiver)
            self.walk(n.expr)
            self.e(ev="Assign", name=n.name, recv=n.receiver is not None)
        elif isinstance(n, ast.FunctionReference):
            if n.receiver is not None:
                self.walk(n.receiver)
            self.e(ev="FuncRef", name=n.func, recv=n.receiver is not None, sig=ser_t(n.signature))
        else:
            raise Exception("unhandled " + type(n).__name__)


def ser_program(p, maxfun=4):
    tops = list(p.context.get_declarations(('global',), only_current=True).values())
    ct = builtin_table(p.bt_factory, maxfun)
    for d in tops:
        if isinstance(d, ast.ClassDeclaration):
            ct[d.name] = {"kind": {0: "regular", 1: "interface", 2: "abstract"}[d.class_type], "final": bool(d.is_final),
                          "tp": ser_tparams(d.type_parameters), "sup": [ser_t(s.class_type) for s in d.superclasses],
                          "fields": [{"n": f.name, "t": ser_t(f.field_type), "final": bool(f.is_final),
                                      "override": bool(f.override)} for f in d.fields],
                          "funs": [ser_fun(f) for f in d.functions]}
    g = {"vars": [{"n": d.name, "t": ser_t(d.get_type()), "final": bool(d.is_final)} for d in tops if isinstance(d, ast.VariableDeclaration)],
         "funs": [ser_fun(d) for d in tops if isinstance(d, ast.FunctionDeclaration)]}
    w = Walker()
    for d in tops:
        w.walk(d)
    fac = p.bt_factory
    names = {"top": fac.get_any_type().name, "unit": fac.get_void_type().name, "bool": fac.get_boolean_type().name,
             "char": fac.get_char_type().name, "string": fac.get_string_type().name, "int": fac.get_integer_type().name,
             "number": fac.get_number_type().name, "array": fac.get_array_type().name}
    return {"lang": p.language, "ct": ct, "g": g, "ev": w.ev, "names": names}
