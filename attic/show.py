import json,sys
d=json.load(open('c06.json'))
def s(t):
    if t['k']=='W': return t['n']+' '+s(t['a'][0]) if t['a'] else '*'
    if t['k']=='V': return t['n']
    return t['n']+('<'+', '.join(s(a) for a in t['a'])+'>' if t['a'] else '')
c=d['cases'][int(sys.argv[1])-1]
print({k:(' '.join(p['v']+' '+p['n'] for p in v['tp']), [s(x) for x in v['sup']]) for k,v in c['ct'].items() if v['tp'] or k=='Cc'})
rel={tuple(p) for p in c['rel']}
for a in sys.argv[2:]:
    i,j=map(int,a.split(','))
    print(i,j,s(c['u'][i-1]),' <: ',s(c['u'][j-1]),' impl=',(i,j) in rel)
