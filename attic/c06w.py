import sys, json, itertools
sys.path.insert(0,'/tmp/scratch/repo2')
from src.ir import ast, types as tp, kotlin_types as kt

BUILTIN = {'Any': kt.Any, 'Number': kt.Number, 'Int': kt.Integer, 'String': kt.String}
VAR = {'inv': tp.Invariant, 'out': tp.Covariant, 'in': tp.Contravariant}

def C(n,*a): return {"k":"C","n":n,"a":list(a)}
def W(v,*a): return {"k":"W","n":v,"a":list(a)}
def V(n,*a): return {"k":"V","n":n,"a":list(a)}

class Table:
    def __init__(self, ct, order):
        self.ct=ct; self.decl={}; self.tparams={}
        for name in order:
            e=ct[name]
            tps=[tp.TypeParameter(p['n'], VAR[p['v']], self.build(p['b'][0], {}) if p['b'] else None) for p in e['tp']]
            self.tparams[name]={p.name:p for p in tps}
            sups=[ast.SuperClassInstantiation(self.build(s, self.tparams[name]), []) for s in e['sup']]
            self.decl[name]=ast.ClassDeclaration(name, sups, ast.ClassDeclaration.REGULAR, fields=[], functions=[], is_final=False, type_parameters=tps)
    def build(self, t, env):
        k=t['k']
        if k=='V': return env[t['n']]
        if k=='W':
            if t['n']=='star': return tp.WildCardType()
            return tp.WildCardType(self.build(t['a'][0], env), VAR[t['n']])
        if k=='C':
            if t['n'] in BUILTIN: return BUILTIN[t['n']]
            d=self.decl[t['n']]
            ty=d.get_type()
            if not t['a']: return ty
            return ty.new([self.build(a, env) for a in t['a']])
        raise Exception(k)

def table(vA, vB, argB, vD1, vD2, argD):
    ct={
     "Any": {"tp": [], "sup": []},
     "Number": {"tp": [], "sup": [C("Any")]},
     "Int": {"tp": [], "sup": [C("Number")]},
     "String": {"tp": [], "sup": [C("Any")]},
     "A": {"tp": [{"n":"T","v":vA,"b":[]}], "sup": []},
     "B": {"tp": [{"n":"T","v":vB,"b":[]}], "sup": [C("A", argB)]},
     "Cc": {"tp": [], "sup": [C("B", C("Int"))]},
     "D": {"tp": [{"n":"X","v":vD1,"b":[]},{"n":"Y","v":vD2,"b":[]}], "sup": [C("A", argD)]},
    }
    return ct, ["A","B","Cc","D"]

def universe(ct):
    g0=[C("Number"),C("Int"),C("String"),C("Cc")]
    def args(ts): return ts+[W("out",t) for t in ts]+[W("in",t) for t in ts]
    l1=[C("A",a) for a in args(g0)]+[C("B",a) for a in args(g0)]
    l1d=[C("D",a,b) for a in args(g0[:2]) for b in args(g0[1:3])]
    l2=[C("A",a) for a in args(l1[:24:3])]+[C("B",a) for a in args(l1[1:24:5])]
    return g0+l1+l1d+l2

def wf(ct,t):
    if t['k']!='C': return True
    for i,a in enumerate(t['a']):
        v=ct[t['n']]['tp'][i]['v']
        if a['k']=='W':
            if a['n']=='in' and v=='out': return False
            if a['n']=='out' and v=='in': return False
            if not wf(ct,a['a'][0]): return False
        elif not wf(ct,a): return False
    return True

cases=[]
def occ(ct,t,pos,acc):
    # collect (var, position) occurrences
    if t['k']=='V': acc.append((t['n'],pos)); return
    if t['k']=='W':
        if t['a']: occ(ct,t['a'][0], pos if t['n']=='out' else flip(pos), acc)
        return
    for i,a in enumerate(t['a']):
        v=ct[t['n']]['tp'][i]['v']
        occ(ct,a, comp(pos,v), acc)
def flip(p): return {'out':'in','in':'out','inv':'inv'}[p]
def comp(p,v):
    if p=='inv' or v=='inv': return 'inv'
    return v if p=='out' else flip(v)
def declwf(ct):
    for n,e in ct.items():
        vs={p['n']:p['v'] for p in e['tp']}
        for s in e['sup']:
            acc=[]; occ(ct,s,'out',acc)
            for (x,pos) in acc:
                if vs[x]=='out' and pos!='out': return False
                if vs[x]=='in' and pos!='in': return False
    return True
combos=list(itertools.product(['inv','out','in'],['inv','out','in'],[V("T"),C("Int"),C("A",V("T"))],['inv','out'],['inv','in'],[V("X"),V("Y"),C("String")]))
import random
random.seed(int(sys.argv[1]) if len(sys.argv)>1 else 0)
random.shuffle(combos)
for (vA,vB,argB,vD1,vD2,argD) in combos[:int(sys.argv[2]) if len(sys.argv)>2 else 12]:
    # declaration-site variance must be respected by supertypes for a sensible table; skip obviously ill-formed
    ct,order=table(vA,vB,argB,vD1,vD2,argD)
    if not declwf(ct): continue
    T=Table(ct,order)
    U=[u for u in universe(ct) if wf(ct,u)]
    objs=[T.build(u,{}) for u in U]
    rel=[]
    for i,s in enumerate(objs):
        for j,t in enumerate(objs):
            if s.is_subtype(t): rel.append([i+1,j+1])
    cases.append({"ct":ct,"u":U,"rel":rel})
json.dump({"cases":cases}, open("c06.json","w"))
print(len(cases), sum(len(c['u'])**2 for c in cases), sum(len(c['rel']) for c in cases))
