---------------------------- MODULE TraceSub ----------------------------
EXTENDS Types, Json, IOUtils, TLCExt

Data == JsonDeserialize(IOEnv.TRACE_FILE)
CT == Data.ct
Q == Data.q
VARIABLE l
Init == l = 1
Next == l <= Len(Q) /\ l' = l + 1
Ok == l > Len(Q) \/ (Sub(CT, Q[l].s, Q[l].t) \in BOOLEAN)
Spec == Init /\ [][Next]_l
=======================================================================
