import json,sys,subprocess,os,collections
def s(t):
    if t==[] or t is None: return '-'
    if t['k']=='W': return (t['n']+' '+s(t['a'][0])) if t['a'] else '*'
    if t['k']=='V': return t['n']+(':'+s(t['a'][0]) if t['a'] else '')
    if t['k']=='N': return 'BOT'
    if t['k']=='U': return 'U('+s(t['a'][0])+' | '+s(t['a'][1])+')'
    return ('prim ' if t['k']=='P' else '')+t['n']+('<'+', '.join(s(a) for a in t['a'])+'>' if t['a'] else '')
f=sys.argv[1]
env=dict(os.environ, TRACE_FILE=f)
out=subprocess.run(['tlc','-workers','1','-metadir',f+'.m','-noGenerateSpecTE','HTypingProto.tla'],env=env,capture_output=True,text=True,cwd='/root/prestudy').stdout
subprocess.run(['rm','-rf',f+'.m'])
m=[l for l in out.split('\n') if l.startswith('"{')]
if not m: print(out[-3000:]); sys.exit()
v=[x for x in json.loads(json.loads(m[-1]))['viol'] if not x[2].startswith('INFO')]
d=json.load(open(f))
byprog=collections.defaultdict(list)
for x in v: byprog[x[0]].append(x)
none=[]
for i,P in enumerate(d['progs'],1):
    if not byprog[i]: none.append((P['seed'],P['inj']))
print(f,'injected programs',len(d['progs']),'rejected by walk',len(d['progs'])-len(none),'NOT rejected',len(none))
for x in none[:12]: print('   seed',x[0],x[1][:150])
cl=collections.Counter(x[2] for x in v)
print('   clauses:',dict(cl))
