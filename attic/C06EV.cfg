SPECIFICATION EVSpec
INVARIANT EVDone
CHECK_DEADLOCK FALSE
