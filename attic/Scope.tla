---------------------------- MODULE Scope ----------------------------
EXTENDS Naturals, Sequences, FiniteSets, TLC, Json, IOUtils
Data == JsonDeserialize(IOEnv.TRACE_FILE)
Progs == Data.progs
VARIABLES p, i, scopes, viol
vars == <<p, i, scopes, viol>>

Ev == Progs[p].ev
G == Progs[p].g
SeqToSet(s) == {s[j] : j \in DOMAIN s}
RECURSIVE MemberNames(_, _)
MemberNames(cls, kind) ==
  IF cls \notin DOMAIN G.classes THEN {}
  ELSE LET c == G.classes[cls] IN
       SeqToSet(IF kind = "v" THEN c.fields ELSE c.funs) \cup UNION {MemberNames(c.sup[j], kind) : j \in DOMAIN c.sup}

GlobalScope(pp) == [kind |-> "Global", v |-> SeqToSet(Progs[pp].g.vars), f |-> SeqToSet(Progs[pp].g.funs)]
Visible(kind, name) == \E s \in DOMAIN scopes : name \in (IF kind = "v" THEN scopes[s].v ELSE scopes[s].f)
Top == scopes[Len(scopes)]
Declare(kind, name) ==
  [scopes EXCEPT ![Len(scopes)] = IF kind = "v" THEN [@ EXCEPT !.v = @ \cup {name}] ELSE [@ EXCEPT !.f = @ \cup {name}]]
Fresh(name) == name \notin Top.v /\ name \notin Top.f

Init == p = 1 /\ i = 1 /\ scopes = <<GlobalScope(1)>> /\ viol = {}
Step ==
  /\ i <= Len(Ev)
  /\ LET e == Ev[i] IN
     CASE e.ev = "Enter" ->
            /\ scopes' = Append(scopes,
                 IF e.kind = "Class" THEN [kind |-> "Class", v |-> MemberNames(e.name, "v"), f |-> MemberNames(e.name, "f")]
                 ELSE IF e.kind = "True" /\ e.name # "" THEN [kind |-> e.kind, v |-> {e.name}, f |-> {}]
                 ELSE [kind |-> e.kind, v |-> {}, f |-> {}])
            /\ viol' = viol
       [] e.ev = "Exit" ->
            /\ scopes' = LET popped == SubSeq(scopes, 1, Len(scopes) - 1) IN
                         IF e.kind = "Fun" /\ popped[Len(popped)].kind \notin {"Class", "Global"}
                         THEN [popped EXCEPT ![Len(popped)] = [@ EXCEPT !.f = @ \cup {e.name}]]
                         ELSE popped
            /\ viol' = viol \cup (IF e.kind = "Fun" /\ scopes[Len(scopes)-1].kind \notin {"Class", "Global"}
                                      /\ (e.name \in scopes[Len(scopes)-1].v \/ e.name \in scopes[Len(scopes)-1].f)
                                  THEN {<<p, i, "FreshFun", e.name>>} ELSE {})
       [] e.ev \in {"VarDecl", "ParamDecl"} ->
            /\ scopes' = IF Len(scopes) = 1 THEN scopes ELSE Declare("v", e.name)
            /\ viol' = viol \cup (IF Len(scopes) > 1 /\ ~Fresh(e.name) THEN {<<p, i, "Fresh", e.name>>} ELSE {})
       [] e.ev = "Var" ->
            /\ UNCHANGED scopes
            /\ viol' = viol \cup (IF Visible("v", e.name) THEN {} ELSE {<<p, i, "VarResolved", e.name>>})
       [] e.ev = "Call" /\ ~e.recv ->
            /\ UNCHANGED scopes
            /\ viol' = viol \cup (IF (IF e.ref THEN Visible("v", e.name) ELSE Visible("f", e.name)) THEN {} ELSE {<<p, i, "CallResolved", e.name>>})
       [] e.ev = "Assign" /\ ~e.recv ->
            /\ UNCHANGED scopes
            /\ viol' = viol \cup (IF Visible("v", e.name) THEN {} ELSE {<<p, i, "AssignResolved", e.name>>})
       [] e.ev = "FuncRef" /\ ~e.recv ->
            /\ UNCHANGED scopes
            /\ viol' = viol \cup (IF Visible("f", e.name) \/ Visible("v", e.name) THEN {} ELSE {<<p, i, "RefResolved", e.name>>})
       [] OTHER -> UNCHANGED <<scopes, viol>>
  /\ i' = i + 1 /\ p' = p
NextProg ==
  /\ i > Len(Ev) /\ p < Len(Progs)
  /\ p' = p + 1 /\ i' = 1 /\ scopes' = <<GlobalScope(p + 1)>> /\ viol' = viol
Next == Step \/ NextProg
Spec == Init /\ [][Next]_vars
Done == (p = Len(Progs) /\ i > Len(Ev)) => PrintT(<<"VIOL", Len(scopes), viol>>)
=======================================================================
