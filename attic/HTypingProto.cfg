SPECIFICATION Spec
INVARIANT Done
INVARIANT StackOK
CHECK_DEADLOCK FALSE
