SPECIFICATION GSpec
CONSTRAINT GBound
INVARIANT GEmit
CHECK_DEADLOCK FALSE
