import sys, json, subprocess, random
from concurrent.futures import ThreadPoolExecutor
scs=[]
for line in open(sys.argv[1]):
    line=line.strip()
    if line.startswith('"['): scs.append(json.loads(json.loads(line)))
seen=set(); S=[]
for s_ in scs:
    k=json.dumps(s_,sort_keys=True)
    if k not in seen: seen.add(k); S.append(s_)
random.seed(1)
# add two-batch sessions by pairing random single-batch scenarios
two=[a+b for a,b in zip(random.sample(S,min(60,len(S))), random.sample(S,min(60,len(S))))]
S=S+two
repo=sys.argv[3] if len(sys.argv)>3 else '/repo'
def run(sc):
    r=subprocess.run(['/venv/bin/python','/root/prestudy/drv_session.py',json.dumps(sc),repo],capture_output=True,text=True)
    try: return {"sc":sc,"obs":json.loads(r.stdout.strip().split('\n')[-1])}
    except Exception: return {"sc":sc,"obs":{"exc":"HARNESS:"+r.stderr[-200:],"passed":0,"failed":0,"faults":[],"saved":[],"tmpleft":False}}
with ThreadPoolExecutor(16) as ex: runs=list(ex.map(run,S))
json.dump({"runs":runs}, open(sys.argv[2],'w'))
print('sessions',len(runs),'exceptions',sum(1 for r in runs if r['obs']['exc']))
