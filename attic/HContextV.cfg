SPECIFICATION VSpec
CHECK_DEADLOCK FALSE
