# patch c06.py: only well-formed declarations (declaration-site variance respected in supertypes)
import re
src=open('c06.py').read()
src=src.replace("    ct,order=table(vA,vB,argB,vD1,vD2,argD)\n", "    ct,order=table(vA,vB,argB,vD1,vD2,argD)\n    if not declwf(ct): continue\n")
src=src.replace("cases=[]\n", '''cases=[]
def occ(ct,t,pos,acc):
    # collect (var, position) occurrences
    if t['k']=='V': acc.append((t['n'],pos)); return
    if t['k']=='W':
        if t['a']: occ(ct,t['a'][0], pos if t['n']=='out' else flip(pos), acc)
        return
    for i,a in enumerate(t['a']):
        v=ct[t['n']]['tp'][i]['v']
        occ(ct,a, comp(pos,v), acc)
def flip(p): return {'out':'in','in':'out','inv':'inv'}[p]
def comp(p,v):
    if p=='inv' or v=='inv': return 'inv'
    return v if p=='out' else flip(v)
def declwf(ct):
    for n,e in ct.items():
        vs={p['n']:p['v'] for p in e['tp']}
        for s in e['sup']:
            acc=[]; occ(ct,s,'out',acc)
            for (x,pos) in acc:
                if vs[x]=='out' and pos!='out': return False
                if vs[x]=='in' and pos!='in': return False
    return True
''')
open('c06w.py','w').write(src)
