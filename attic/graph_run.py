import sys, json, itertools, random
sys.path.insert(0,'/repo')
from src import graph_utils as gu
def run(n, edges):
    g={u:[v for v in range(1,n+1) if (u,v) in edges] for u in range(1,n+1)}
    res=[]
    for u in range(1,n+1):
        res.append({"reach":[gu.reachable(g,u,v) for v in range(1,n+1)],
                    "bi":[gu.bi_reachable(g,u,v) for v in range(1,n+1)],
                    "conn":[gu.connected(g,u,v) for v in range(1,n+1)],
                    "allreach":sorted(gu.find_all_reachable(g,u)),
                    "allbi":sorted(gu.find_all_bi_reachable(g,u)),
                    "allconn":sorted(gu.find_all_connected(g,u)),
                    "sources":list(gu.find_sources(g,u)),
                    "paths":gu.find_all_paths(g,u),
                    "longest":gu.find_longest_paths(g,u)})
    return {"g":[g[u] for u in range(1,n+1)],"res":res}
cases=[]
for n in (1,2,3):
    pairs=[(u,v) for u in range(1,n+1) for v in range(1,n+1)]
    for mask in range(2**len(pairs)):
        edges={pairs[i] for i in range(len(pairs)) if mask>>i&1}
        cases.append(run(n,edges))
random.seed(1)
pairs=[(u,v) for u in range(1,5) for v in range(1,5)]
for _ in range(int(sys.argv[1])):
    edges={p for p in pairs if random.random()<0.3}
    cases.append(run(4,edges))
json.dump({"cases":cases}, open('/tmp/proto/graph_trace.json','w'))
print(len(cases))
