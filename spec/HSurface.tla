------------------------------ MODULE HSurface ------------------------------
\* The declaration surface of a translation (property C12): what the header of every class, function, field and variable of the
\* program must say in the concrete syntax of the target language -
\*   names, type parameters with their declaration-site variance and bounds, inheritance clauses, parameter names and types,
\*   declared (return / variable / field) types, and the finality / abstractness / override modifiers the language expresses.
\* The harness only cuts the emitted text into tokens and splits each header by bracket matching (harness/surface.py); the
\* syntax of types and headers of the four languages is stated here, and TLC compares, per declared name, the bag of expected
\* headers with the bag of headers found in the text.
EXTENDS Naturals, Sequences, FiniteSets

Range(s) == {s[i] : i \in DOMAIN s}
RECURSIVE Join(_, _)
Join(ss, sep) == IF ss = <<>> THEN <<>> ELSE IF Len(ss) = 1 THEN ss[1] ELSE ss[1] \o sep \o Join(Tail(ss), sep)
Map(s, Op(_)) == [i \in DOMAIN s |-> Op(s[i])]
CountIn(s, x) == Cardinality({i \in DOMAIN s : s[i] = x})
BagEq(a, b) == Len(a) = Len(b) /\ \A x \in Range(a) \cup Range(b) : CountIn(a, x) = CountIn(b, x)
IdxOf(s, x) == IF x \in Range(s) THEN CHOOSE i \in DOMAIN s : s[i] = x /\ \A j \in 1..(i - 1) : s[j] # x ELSE 0
Before(s, i) == SubSeq(s, 1, i - 1)
After(s, i) == SubSeq(s, i + 1, Len(s))

JVM(lang) == lang \in {"java", "groovy"}
\* ---- names of the built-in types ---------------------------------------------------------------------------------------------
RefName(lang, n) == IF JVM(lang) THEN (CASE n = "Any" -> "Object" [] n = "Int" -> "Integer" [] n = "Char" -> "Character" [] OTHER -> n)
                    ELSE (IF n = "Void" THEN "Unit" ELSE n)
PrimName(n) == CASE n = "Int" -> "int" [] n = "Char" -> "char" [] n = "Byte" -> "byte" [] n = "Short" -> "short" [] n = "Long" -> "long"
                 [] n = "Float" -> "float" [] n = "Double" -> "double" [] n = "Boolean" -> "boolean" [] OTHER -> n
LB(lang) == IF lang = "scala" THEN "[" ELSE "<"
RB(lang) == IF lang = "scala" THEN "]" ELSE ">"
\* ---- the concrete syntax of a type term; pos = "top" (a declared type) or "arg" (inside type arguments: reference types only) ----
RECURSIVE Ty(_, _, _)
Wild(lang, t) ==
  IF t.a = <<>> THEN (IF lang = "kotlin" THEN <<"*">> ELSE <<"?">>)
  ELSE LET b == Ty(lang, t.a[1], "arg") IN
       CASE lang = "kotlin" -> <<t.n>> \o b                                       \* out T / in T
         [] lang = "scala" -> <<"?", IF t.n = "out" THEN "<:" ELSE ">:">> \o b
         [] OTHER -> <<"?", IF t.n = "out" THEN "extends" ELSE "super">> \o b
Ty(lang, t, pos) ==
  CASE t.k = "W" -> IF pos = "top" /\ t.a # <<>> THEN Ty(lang, t.a[1], "top") ELSE Wild(lang, t)
    [] t.k = "V" -> <<t.n>>
    \* a primitive type: Java needs the boxed class in argument position; Groovy accepts the primitive name there (it denotes the wrapper)
    [] t.k = "P" -> IF pos = "arg" /\ lang = "java" THEN <<RefName(lang, t.n)>> ELSE <<PrimName(t.n)>>
    [] t.k = "N" -> <<"Nothing">>
    [] OTHER ->
       IF t.a = <<>> THEN (IF JVM(lang) /\ t.n = "Void" THEN (IF pos = "arg" THEN <<"Void">> ELSE <<"void">>) ELSE <<RefName(lang, t.n)>>)
       ELSE IF t.n = "SArray" THEN <<RefName(lang, t.a[1].n) \o "Array">>                       \* Kotlin's IntArray, ...
       \* Java / Groovy arrays T[] (covariant by nature: a projected element type is written as its bound)
       ELSE IF t.n = "Array" /\ JVM(lang) THEN Ty(lang, IF t.a[1].k = "W" /\ t.a[1].a # <<>> THEN t.a[1].a[1] ELSE t.a[1], "arg") \o <<"[", "]">>
       ELSE <<t.n, LB(lang)>> \o Join(Map(t.a, LAMBDA x : Ty(lang, x, "arg")), <<",">>) \o <<RB(lang)>>
\* ---- type parameter declarations -----------------------------------------------------------------------------------------------
\* an absent bound is written as the top type in Kotlin and Scala (T: Any, T <: Any) and not at all in Java / Groovy
TParam(lang, p) ==
  LET b == IF p.b = <<>> THEN <<>> ELSE Ty(lang, p.b[1], "arg") IN
  CASE lang = "kotlin" -> (IF p.v = "inv" THEN <<>> ELSE <<p.v>>) \o <<p.n, ":">> \o (IF b = <<>> THEN <<"Any">> ELSE b)
    [] lang = "scala" -> (IF p.v = "inv" THEN <<>> ELSE <<IF p.v = "out" THEN "+" ELSE "-">>) \o <<p.n, "<:">> \o (IF b = <<>> THEN <<"Any">> ELSE b)
    [] OTHER -> <<p.n>> \o (IF b = <<>> THEN <<>> ELSE <<"extends">> \o b)
\* the element type of a vararg parameter (recorded as an array type)
Elem(t) == IF t.a # <<>> THEN t.a[1] ELSE t        \* Array<T>, Kotlin's IntArray, Scala's Seq[T]; a projected element type is read as its bound (Ty at "top")
Param(lang, p) ==
  LET t == IF p.vararg THEN Elem(p.t) ELSE p.t IN
  CASE lang = "kotlin" -> (IF p.vararg THEN <<"vararg">> ELSE <<>>) \o <<p.n, ":">> \o Ty(lang, t, "top")
    [] lang = "scala" -> <<p.n, ":">> \o Ty(lang, t, "top") \o (IF p.vararg THEN <<"*">> ELSE <<>>)
    [] OTHER -> Ty(lang, t, "top") \o (IF p.vararg THEN <<"...">> ELSE <<>>) \o <<p.n>>

\* ============================ expected headers (from the abstract program) =========================================================
\* function: e is the Exit event of the function (e.sig = its signature, e.owner \in {"top", "class", "local"})
\* Java and Groovy print a local function as a lambda / closure: no header, not judged here
FunJudged(lang, e) == ~(JVM(lang) /\ e.owner = "local")
ExpFun(lang, e) ==
  LET s == e.sig IN
  [name |-> s.n,
   tps |-> Map(s.tp, LAMBDA p : TParam(lang, p)),
   params |-> Map(s.params, LAMBDA p : Param(lang, p)),
   \* a declared return type is printed iff the program carries it; Java and Groovy have no omitted return types (the recorded one is printed)
   ret |-> IF JVM(lang) THEN (IF s.ret = <<>> THEN <<"void">> ELSE Ty(lang, s.ret[1], "top"))
           ELSE (IF s.declared_ret = <<>> THEN <<>> ELSE Ty(lang, s.declared_ret[1], "top")),
   abstract |-> s.abstract,
   \* finality and override are expressed for members of classes (Kotlin: open / -, Scala / Java / Groovy: - / final); override only in Kotlin and Scala
   final |-> IF e.owner = "class" THEN (IF s.final THEN "final" ELSE "open") ELSE "na",
   override |-> IF e.owner = "class" /\ ~JVM(lang) THEN (IF s.override THEN "override" ELSE "no") ELSE "na"]
MeasFun(lang, m, owner) ==
  [name |-> m.name, tps |-> m.tps, params |-> m.params, ret |-> m.ret,
   abstract |-> ~m.hasbody,
   final |-> IF owner = "class" THEN (IF lang = "kotlin" THEN (IF "open" \in Range(m.mods) THEN "open" ELSE "final")
                                      ELSE (IF "final" \in Range(m.mods) THEN "final" ELSE "open")) ELSE "na",
   override |-> IF owner = "class" /\ ~JVM(lang) THEN (IF "override" \in Range(m.mods) THEN "override" ELSE "no") ELSE "na"]

\* variable declarations: val / var (final) by finality, the declared type iff the program carries one.
\* Java and Groovy: judged when the program carries a type (omitted types are the business of the var_untyped facts of HInventory)
VarJudged(lang, e) == ~JVM(lang) \/ e.vt # <<>>
ExpVar(lang, e) == [name |-> e.name, final |-> e.final, type |-> IF e.vt = <<>> THEN <<>> ELSE Ty(lang, e.vt[1], "top")]
MeasVar(lang, m) == [name |-> m.name, final |-> IF JVM(lang) THEN "final" \in Range(m.mods) ELSE "val" \in Range(m.mods), type |-> m.type]

\* fields: Kotlin / Scala print them in the class header ([open] [override] val|var name: T  /  [final] [override] val|var name: T),
\* Java / Groovy as members (public [final] T name)
ExpField(lang, f) == [name |-> f.n, final |-> f.final, type |-> Ty(lang, f.t, "top"),
                      override |-> IF JVM(lang) THEN "na" ELSE (IF f.override THEN "override" ELSE "no"),
                      open |-> IF JVM(lang) THEN "na" ELSE (IF f.open THEN "open" ELSE "final")]
MeasFieldKS(lang, toks) ==
  LET c == IdxOf(toks, ":")  mods == Range(Before(toks, c - 1)) IN
  [name |-> IF c > 1 THEN toks[c - 1] ELSE "?", final |-> "val" \in mods, type |-> After(toks, c),
   override |-> IF "override" \in mods THEN "override" ELSE "no",
   open |-> IF lang = "kotlin" THEN (IF "open" \in mods THEN "open" ELSE "final") ELSE (IF "final" \in mods THEN "final" ELSE "open")]
MeasFieldJ(m) == [name |-> m.name, final |-> "final" \in Range(m.mods), type |-> m.type, override |-> "na", open |-> "na"]

\* classes: c = name, E = its entry in the class table (kind, final, tp, sup, fields), CT = the table (to tell interfaces among the supertypes)
ExpClass(lang, c, E, CT) ==
  LET isIf(t) == t.n \in DOMAIN CT /\ CT[t.n].kind = "interface"
      supI == SelectSeq(E.sup, isIf)
      supC == SelectSeq(E.sup, LAMBDA t : ~isIf(t)) IN
  [name |-> c, kind |-> E.kind,
   \* finality is a statement about regular classes (interfaces and abstract classes are open by nature)
   final |-> IF E.kind = "regular" THEN (IF E.final THEN "final" ELSE "open") ELSE "na",
   tps |-> Map(E.tp, LAMBDA p : TParam(lang, p)),
   sups |-> IF JVM(lang) THEN <<>> ELSE Map(E.sup, LAMBDA t : Ty(lang, t, "top")),
   \* Java / Groovy: classes are extended, interfaces implemented (an interface extends interfaces)
   ext |-> IF JVM(lang) THEN Map(IF E.kind = "interface" THEN E.sup ELSE supC, LAMBDA t : Ty(lang, t, "top")) ELSE <<>>,
   impl |-> IF JVM(lang) /\ E.kind # "interface" THEN Map(supI, LAMBDA t : Ty(lang, t, "top")) ELSE <<>>,
   fields |-> IF JVM(lang) THEN <<>> ELSE Map(E.fields, LAMBDA f : ExpField(lang, f))]
MeasClass(lang, m) ==
  LET mods == Range(m.mods)
      kind == IF m.kw \in {"interface", "trait"} THEN "interface" ELSE IF "abstract" \in mods THEN "abstract" ELSE "regular" IN
  [name |-> m.name, kind |-> kind,
   final |-> IF kind # "regular" THEN "na"
             ELSE IF JVM(lang) THEN (IF "final" \in mods THEN "final" ELSE "open") ELSE (IF "open" \in mods THEN "open" ELSE "final"),
   tps |-> m.tps,
   sups |-> IF JVM(lang) THEN <<>> ELSE m.sups,
   ext |-> IF JVM(lang) THEN m.ext ELSE <<>>, impl |-> IF JVM(lang) THEN m.impl ELSE <<>>,
   fields |-> IF JVM(lang) THEN <<>> ELSE Map(m.fields, LAMBDA f : MeasFieldKS(lang, f))]

\* ============================ comparison ==============================================================================================
\* per declared name: the bag of expected headers against the bag of measured ones, aspect by aspect (so that the failing aspect is
\* named) and as whole records
Proj(rs, a) == [i \in DOMAIN rs |-> rs[i][a]]
AspectsBad(kind, name, aspects, es, ms) ==
  LET bad == {a \in aspects : ~BagEq(Proj(es, a), Proj(ms, a))} IN
  IF Len(es) # Len(ms) THEN {<<kind \o ".count", name, Proj(es, "name"), Proj(ms, "name")>>}
  ELSE IF bad # {} THEN {<<kind \o "." \o a, name, Proj(es, a), Proj(ms, a)>> : a \in bad}
  ELSE IF ~BagEq(es, ms) THEN {<<kind \o ".record", name, es, ms>>} ELSE {}
Sel(s, name) == SelectSeq(s, LAMBDA r : r.name = name)

EvIdx(P, pred(_)) == {j \in DOMAIN P.ev : pred(P.ev[j])}
\* events in walk order as a sequence
RECURSIVE Ordered(_)
Ordered(S) == IF S = {} THEN <<>> ELSE LET m == CHOOSE x \in S : \A y \in S : x <= y IN <<m>> \o Ordered(S \ {m})
EvSeq(P, pred(_)) == Map(Ordered(EvIdx(P, pred)), LAMBDA j : P.ev[j])

ProgClasses(P) == {c \in DOMAIN P.ct : P.ct[c].kind # "builtin"}
\* every expected header occurs among the measured ones at least as often (the text may declare more under that name)
SubBagBad(kind, name, es, ms) == IF \E x \in Range(es) : CountIn(ms, x) < CountIn(es, x) THEN {<<kind \o ".missing", name, es, ms>>} ELSE {}

\* number of expected headers that are compared (reported as coverage)
Judged(P) == Cardinality(EvIdx(P, LAMBDA e : e.ev = "Exit" /\ e.kind = "Fun" /\ FunJudged(P.lang, e)))
             + Cardinality(EvIdx(P, LAMBDA e : e.ev = "VarDecl" /\ VarJudged(P.lang, e))) + Cardinality(ProgClasses(P))
             + Cardinality(EvIdx(P, LAMBDA e : e.ev = "FieldDecl"))

SurfaceBad(P) ==
  LET lang == P.lang  S == P.surface
      fex == EvSeq(P, LAMBDA e : e.ev = "Exit" /\ e.kind = "Fun" /\ FunJudged(lang, e))
      fnames == {fex[i].sig.n : i \in DOMAIN fex}
      \* measured functions carry no owner: the owners of the expected headers of that name decide which modifiers are read
      ownerOf(n) == IF \A i \in DOMAIN fex : fex[i].sig.n = n => fex[i].owner = "class" THEN "class" ELSE "mixed"
      expF(n) == Map(SelectSeq(fex, LAMBDA e : e.sig.n = n), LAMBDA e : IF ownerOf(n) = "class" THEN ExpFun(lang, e)
                                                                       ELSE [ExpFun(lang, e) EXCEPT !.final = "na", !.override = "na"])
      measF(n) == Map(Sel(S.funs, n), LAMBDA m : MeasFun(lang, m, ownerOf(n)))
      vex == EvSeq(P, LAMBDA e : e.ev = "VarDecl" /\ VarJudged(lang, e))
      vnames == {vex[i].name : i \in DOMAIN vex}
      expV(n) == Map(SelectSeq(vex, LAMBDA e : e.name = n), LAMBDA e : ExpVar(lang, e))
      measV(n) == Map(Sel(S.vars, n), LAMBDA m : MeasVar(lang, m))
      cls == ProgClasses(P)
      fdx == EvSeq(P, LAMBDA e : e.ev = "FieldDecl")
      flds == IF JVM(lang) THEN {fdx[i].name : i \in DOMAIN fdx} ELSE {}
      expFld(n) == Map(SelectSeq(fdx, LAMBDA e : e.name = n), LAMBDA e : ExpField(lang, [n |-> e.name, t |-> e.t, final |-> e.final, override |-> e.override, open |-> e.open]))
  IN   UNION {AspectsBad("hdr_fun", n, {"tps", "params", "ret", "abstract", "final", "override"}, expF(n), measF(n)) : n \in fnames}
  \* Java / Groovy texts declare further variables (untyped ones, lambdas and closures for local functions): sub-bag there
  \cup UNION {IF JVM(lang) THEN SubBagBad("hdr_var", n, expV(n), measV(n)) ELSE AspectsBad("hdr_var", n, {"final", "type"}, expV(n), measV(n)) : n \in vnames}
  \cup UNION {AspectsBad("hdr_class", c, {"kind", "final", "tps", "sups", "ext", "impl", "fields"},
                         <<ExpClass(lang, c, P.ct[c], P.ct)>>, Map(Sel(S.classes, c), LAMBDA m : MeasClass(lang, m))) : c \in cls}
  \* the text declares no class and no function (with a header) that the program does not have; Java / Groovy wrap top-level declarations in class Main
  \cup {<<"hdr_class.extra", S.classes[i].name, <<>>, <<S.classes[i].name>>>> : i \in {k \in DOMAIN S.classes : S.classes[k].name \notin cls \cup (IF JVM(lang) THEN {"Main"} ELSE {})}}
  \cup {<<"hdr_fun.extra", S.funs[i].name, <<>>, <<S.funs[i].name>>>> : i \in {k \in DOMAIN S.funs : S.funs[k].name \notin {e.sig.n : e \in Range(EvSeq(P, LAMBDA e : e.ev = "Exit" /\ e.kind = "Fun"))}}}
  \cup UNION {AspectsBad("hdr_field", n, {"final", "type"}, expFld(n), Map(Sel(S.fields, n), MeasFieldJ)) : n \in flds}
=============================================================================
