------------------------------- MODULE HTypes -------------------------------
\* Type terms, class tables and the *declarative* relations on them (properties C06-C10 and, through the typing
\* walk, C01/C03/C04/C05/C17).  Nothing here is transcribed from src/ir/types.py: subtyping is the relation induced
\* by declared supertypes, declaration-site variance, use-site projections (type containment, Kotlin spec
\* "type containment", JLS 4.5.1/4.10.2) and type-parameter bounds, with the standard capture approximation for the
\* supertypes of a type whose arguments are projections.
\*
\* Term   = [k, n, a]   k = "C" class / built-in n applied to the argument sequence a
\*                      k = "W" projection: n \in {"out","in","star"}, a = <<bound>> (star: <<>>)
\*                      k = "V" type variable n, a = <<bound>> or <<>>
\*                      k = "N" bottom (Nothing),  k = "K" bare generic class,  k = "P" primitive n
\* Class table CT : name |-> [tp : Seq([n, v, b]), sup : Seq(Term), ...]   v \in {"inv","out","in"}, b = <<bound>> or <<>>
EXTENDS Naturals, Sequences, FiniteSets

Cls(n, a)  == [k |-> "C", n |-> n, a |-> a]
Wild(v, a) == [k |-> "W", n |-> v, a |-> a]
Var(n, a)  == [k |-> "V", n |-> n, a |-> a]
Prim(n)    == [k |-> "P", n |-> n, a |-> <<>>]
Bare(n)    == [k |-> "K", n |-> n, a |-> <<>>]
Bot        == [k |-> "N", n |-> "Nothing", a |-> <<>>]
TopT       == Cls("Any", <<>>)
Star       == Wild("star", <<>>)

Flip(v) == CASE v = "out" -> "in" [] v = "in" -> "out" [] OTHER -> v
Range(s) == {s[j] : j \in DOMAIN s}

\* ---- substitution ---------------------------------------------------------------------------------------------
\* m : variable name |-> term.  Plain textual substitution (what instantiation with *non-projected* arguments means).
RECURSIVE Subst(_, _)
Subst(t, m) ==
  IF t.k = "V" THEN (IF t.n \in DOMAIN m THEN m[t.n] ELSE Var(t.n, [i \in DOMAIN t.a |-> Subst(t.a[i], m)]))
  ELSE [k |-> t.k, n |-> t.n, a |-> [i \in DOMAIN t.a |-> Subst(t.a[i], m)]]

RECURSIVE VarsOf(_)
VarsOf(t) == IF t.k = "V" THEN {t.n} \cup UNION {VarsOf(t.a[i]) : i \in DOMAIN t.a}
             ELSE UNION {VarsOf(t.a[i]) : i \in DOMAIN t.a}
\* variables occurring free as *arguments* (the bound carried by a variable term is not an occurrence)
RECURSIVE FreeVars(_)
FreeVars(t) == IF t.k = "V" THEN {t.n} ELSE UNION {FreeVars(t.a[i]) : i \in DOMAIN t.a}
Ground(t) == FreeVars(t) = {}

RECURSIVE HasKind(_, _)
HasKind(t, ks) == t.k \in ks \/ \E i \in DOMAIN t.a : HasKind(t.a[i], ks)
RECURSIVE Depth(_)
Depth(t) == IF t.a = <<>> THEN 0 ELSE 1 + (CHOOSE d \in {Depth(t.a[i]) : i \in DOMAIN t.a} : \A i \in DOMAIN t.a : Depth(t.a[i]) <= d)

ParamNames(CT, c) == {CT[c].tp[i].n : i \in DOMAIN CT[c].tp}
ParamIndex(CT, c, x) == CHOOSE i \in DOMAIN CT[c].tp : CT[c].tp[i].n = x
\* the substitution of a class's parameters by the arguments of an instance S = c<a1..an>
ParamMap(CT, S) == [x \in ParamNames(CT, S.n) |-> S.a[ParamIndex(CT, S.n, x)]]

\* ---- capture approximation ----------------------------------------------------------------------------------------
\* Up / Down: least upper / greatest lower approximation of t[m] when m maps some variables to projections.
\* (B<in Number> with class B<T> : A<A<T>> is *not* a subtype of A<A<in Number>>; its supertype is A<out A<in Number>>.)
RECURSIVE Captures(_, _)
Captures(t, m) ==
  IF t.k = "V" THEN t.n \in DOMAIN m /\ m[t.n].k = "W"
  ELSE \E i \in DOMAIN t.a : Captures(t.a[i], m)

RECURSIVE Up(_, _, _), Down(_, _, _)
Up(CT, t, m) ==
  IF ~Captures(t, m) THEN Subst(t, m)
  ELSE IF t.k = "V" THEN (LET p == m[t.n] IN
                          IF p.n = "out" THEN p.a[1]
                          ELSE IF t.a # <<>> THEN Up(CT, t.a[1], m)       \* in / star: the variable's declared bound
                          ELSE TopT)
  ELSE IF t.k = "W" THEN (IF t.n = "out" THEN Wild("out", <<Up(CT, t.a[1], m)>>)
                          ELSE IF t.n = "in" THEN Wild("in", <<Down(CT, t.a[1], m)>>) ELSE t)
  ELSE Cls(t.n, [i \in DOMAIN t.a |->
          LET ai == t.a[i]  v == CT[t.n].tp[i].v IN
          IF ~Captures(ai, m) THEN Subst(ai, m)
          ELSE IF ai.k = "W" THEN Up(CT, ai, m)
          ELSE IF v = "out" THEN Up(CT, ai, m)
          ELSE IF v = "in"  THEN Down(CT, ai, m)
          ELSE IF ai.k = "V" THEN m[ai.n]                       \* the projection itself stays in an invariant slot
          ELSE Wild("out", <<Up(CT, ai, m)>>)])
Down(CT, t, m) ==
  IF ~Captures(t, m) THEN Subst(t, m)
  ELSE IF t.k = "V" THEN (LET p == m[t.n] IN IF p.n = "in" THEN p.a[1] ELSE Bot)
  ELSE IF t.k = "W" THEN (IF t.n = "out" THEN Wild("out", <<Down(CT, t.a[1], m)>>)
                          ELSE IF t.n = "in" THEN Wild("in", <<Up(CT, t.a[1], m)>>) ELSE t)
  ELSE IF \E i \in DOMAIN t.a : Captures(t.a[i], m) /\ t.a[i].k # "W" /\ CT[t.n].tp[i].v = "inv" THEN Bot
  ELSE Cls(t.n, [i \in DOMAIN t.a |->
          LET ai == t.a[i]  v == CT[t.n].tp[i].v IN
          IF ~Captures(ai, m) THEN Subst(ai, m)
          ELSE IF ai.k = "W" THEN Down(CT, ai, m)
          ELSE IF v = "out" THEN Down(CT, ai, m)
          ELSE Up(CT, ai, m)])

\* declared supertypes of an instance, arguments substituted (captured where the instance has projections)
DirectSupers(CT, S) == {Up(CT, CT[S.n].sup[i], ParamMap(CT, S)) : i \in DOMAIN CT[S.n].sup}
RECURSIVE SupersFrom(_, _)
SupersFrom(CT, Ts) == LET nxt == Ts \cup UNION {DirectSupers(CT, t) : t \in {u \in Ts : u.k = "C"}} IN
                      IF nxt = Ts THEN Ts ELSE SupersFrom(CT, nxt)
Supers(CT, S) == SupersFrom(CT, {S})      \* S and the transitive closure of its declared supertypes

\* transitive supertypes by *textual* substitution of the arguments (what instantiation means in the statement of C07)
TextualDirect(CT, S) == {Subst(CT[S.n].sup[i], ParamMap(CT, S)) : i \in DOMAIN CT[S.n].sup}
RECURSIVE TextualFrom(_, _)
TextualFrom(CT, Ts) == LET nxt == Ts \cup UNION {TextualDirect(CT, t) : t \in {u \in Ts : u.k = "C"}} IN
                       IF nxt = Ts THEN Ts ELSE TextualFrom(CT, nxt)
SupersTextual(CT, S) == TextualFrom(CT, {S})

\* ---- subtyping and containment ------------------------------------------------------------------------------------
\* imp = TRUE adds the implicit rules: every type is below the top type, "out Top" is the star projection,
\* an unbounded variable is below the top type only.
RECURSIVE SubX(_, _, _, _), ContX(_, _, _, _, _)
SubX(CT, S, T, imp) ==
  \/ S = T
  \/ S.k = "N"
  \/ imp /\ T = TopT
  \/ /\ S.k = "C"
     /\ \/ /\ T.k = "C" /\ S.n = T.n /\ Len(S.a) = Len(T.a)
           /\ \A i \in DOMAIN S.a : ContX(CT, S.a[i], T.a[i], CT[S.n].tp[i].v, imp)
        \/ \E i \in DOMAIN CT[S.n].sup : SubX(CT, Up(CT, CT[S.n].sup[i], ParamMap(CT, S)), T, imp)
  \/ /\ S.k = "V" /\ Len(S.a) = 1 /\ SubX(CT, S.a[1], T, imp)
  \/ /\ S.k = "V" /\ T.k = "V" /\ S.n = T.n                     \* variables compare by name
ContX(CT, A0, B, v, imp) ==
  \* a star projection on the left is "in Bottom" where a consumer is expected and "out Top" elsewhere
  LET want == IF B.k = "W" THEN B.n ELSE v
      A == IF A0.k = "W" /\ A0.n = "star" /\ want # "star"
           THEN (IF want = "in" THEN Wild("in", <<Bot>>) ELSE Wild("out", <<TopT>>)) ELSE A0 IN
  IF B.k = "W" THEN
     CASE B.n = "star" -> TRUE
       [] B.n = "out" -> \/ imp /\ B.a[1] = TopT
                         \/ IF A.k = "W" THEN A.n = "out" /\ SubX(CT, A.a[1], B.a[1], imp) ELSE SubX(CT, A, B.a[1], imp)
       [] B.n = "in"  -> IF A.k = "W" THEN A.n = "in" /\ SubX(CT, B.a[1], A.a[1], imp) ELSE SubX(CT, B.a[1], A, imp)
  ELSE
     CASE v = "inv" -> A0 = B                                  \* syntactic identity, as in JLS 4.10.2
       [] v = "out" -> IF A.k = "W" THEN A.n = "out" /\ SubX(CT, A.a[1], B, imp) ELSE SubX(CT, A, B, imp)
       [] v = "in"  -> IF A.k = "W" THEN A.n = "in"  /\ SubX(CT, B, A.a[1], imp) ELSE SubX(CT, B, A, imp)

Sub(CT, S, T)    == SubX(CT, S, T, FALSE)       \* the relation induced by declared supertypes only
SubTop(CT, S, T) == SubX(CT, S, T, TRUE)        \* plus the implicit top type / star rules
Cont(CT, A, B, v) == ContX(CT, A, B, v, FALSE)
Unrelated(CT, S, T) == ~SubTop(CT, S, T) /\ ~SubTop(CT, T, S)

\* ---- well-formedness ------------------------------------------------------------------------------------------------
\* a declared supertype may mention a variant parameter only in positions of that variance
RECURSIVE OccursOK(_, _, _, _)
OccursOK(CT, t, x, pol) ==        \* every occurrence of variable x in t is at polarity compatible with x's variance xv = pol.want
  IF t.k = "V" THEN (t.n # x.n \/ x.v = "inv" \/ pol = x.v)
  ELSE IF t.k = "W" THEN (t.a = <<>> \/ OccursOK(CT, t.a[1], x, IF t.n = "in" THEN Flip(pol) ELSE pol))
  ELSE IF t.k = "C" THEN \A i \in DOMAIN t.a :
         LET v == CT[t.n].tp[i].v IN
         \* a projected argument fixes the polarity of its slot by itself (its own "in" flips below)
         OccursOK(CT, t.a[i], x, IF t.a[i].k = "W" THEN pol ELSE IF v = "inv" THEN "inv" ELSE IF v = "in" THEN Flip(pol) ELSE pol)
  ELSE TRUE
\* ... and the bound of a parameter never mentions a contravariant parameter, nor - if the parameter itself is
\* contravariant - a covariant one (otherwise variance-based subtyping can produce instances that violate the bound,
\* and the relation stops being transitive; the generator never builds such bounds)
BoundsWF(CT) == \A c \in DOMAIN CT : \A i, j \in DOMAIN CT[c].tp :
                  (CT[c].tp[i].b # <<>> /\ CT[c].tp[j].n \in FreeVars(CT[c].tp[i].b[1]))
                     => (CT[c].tp[j].v # "in" /\ (CT[c].tp[i].v = "in" => CT[c].tp[j].v # "out"))
DeclWF(CT) == /\ \A c \in DOMAIN CT : \A i \in DOMAIN CT[c].tp : \A s \in DOMAIN CT[c].sup :
                   OccursOK(CT, CT[c].sup[s], CT[c].tp[i], "out")
              /\ BoundsWF(CT)

\* a term is well formed: arities match, a projection agrees with the declared variance, arguments respect bounds
RECURSIVE WF(_, _)
WF(CT, t) ==
  CASE t.k = "C" -> /\ t.n \in DOMAIN CT /\ Len(t.a) = Len(CT[t.n].tp)
                    /\ \A i \in DOMAIN t.a :
                         LET p == CT[t.n].tp[i]  ai == t.a[i] IN
                         /\ WF(CT, ai)
                         /\ ai.k \notin {"K", "P"}
                         /\ (ai.k = "W" /\ ai.n = "out" => p.v # "in")
                         /\ (ai.k = "W" /\ ai.n = "in"  => p.v # "out")
                         /\ (p.b # <<>> /\ (ai.k # "W" \/ ai.n \in {"out", "in"}) =>     \* ("in L": L itself must fit, or the type is empty)
                               SubTop(CT, IF ai.k = "W" THEN ai.a[1] ELSE ai,
                                          Subst(p.b[1], [x \in {q \in ParamNames(CT, t.n) : t.a[ParamIndex(CT, t.n, q)].k # "W"} |->
                                                             t.a[ParamIndex(CT, t.n, x)]])))
    [] t.k = "W" -> t.a = <<>> \/ (WF(CT, t.a[1]) /\ t.a[1].k \notin {"W", "K", "P"})
    [] t.k = "V" -> \A i \in DOMAIN t.a : WF(CT, t.a[i])
    [] OTHER -> TRUE

\* the exactness fragment of C06: non-generic classes, built-ins, instantiations of generic classes with such types or
\* bounded projections of them; no variables, primitives, star projections, bare constructors or uses of the top type
RECURSIVE Fragment(_)
Fragment(t) ==
  CASE t.k = "C" -> t # TopT /\ \A i \in DOMAIN t.a : Fragment(t.a[i])
    [] t.k = "W" -> t.n # "star" /\ t.a # <<>> /\ t.a[1].k = "C" /\ Fragment(t.a[1])
    [] OTHER -> FALSE

\* known-finding shape (F11): the implementation computes the supertypes of an instance by *textual* substitution of its
\* arguments.  That differs from the capture approximation exactly when a projected argument lands in a position where it
\* cannot stay as it is (nested below the top level of a supertype's argument list, or in a slot of conflicting variance).
\* TextualDiffers(CT, S): somewhere in S - its own hierarchy or the hierarchy of a type occurring among its arguments -
\* the textual supertype is not the captured one.
ArgCore(a) == IF a.k = "W" /\ a.a # <<>> THEN a.a[1] ELSE a
RECURSIVE TextualDiffers(_, _)
TextualDiffers(CT, S) ==
  /\ S.k = "C"
  /\ \/ \E s \in DOMAIN CT[S.n].sup : Up(CT, CT[S.n].sup[s], ParamMap(CT, S)) # Subst(CT[S.n].sup[s], ParamMap(CT, S))
     \/ \E T \in DirectSupers(CT, S) : TextualDiffers(CT, T)
     \/ \E i \in DOMAIN S.a : TextualDiffers(CT, ArgCore(S.a[i]))
=============================================================================
