------------------------------ MODULE HSubTrace ------------------------------
\* V step of C06.  One TLC state per recorded class table: the implementation's subtype matrix over the universe is
\* compared with the declarative relation of HTypes.
EXTENDS HTypes, TLC, Json, IOUtils
Cases == JsonDeserialize(IOEnv.TRACE_FILE).cases
VARIABLE c
Init == c \in DOMAIN Cases
Next == UNCHANGED c

Pairs(s) == {<<s[i][1], s[i][2]>> : i \in DOMAIN s}

\* violations of one case: <<clause, i, j, shape>> ; shape is the known-finding key computed on the violating pair
Bad(cs) ==
  LET CT == cs.ct  U == cs.u  R == Pairs(cs.rel)  RA == Pairs(cs.rela)  I == DOMAIN U
      Frag == {i \in I : Fragment(U[i]) /\ WF(CT, U[i])}
      TD == {i \in I : TextualDiffers(CT, U[i])}
      Shape(S) == IF S \cap TD # {} THEN "TextualSupertypes" ELSE "plain"
      NonTrans == {r \in R : r[1] \in Frag /\ r[2] \in Frag /\ \E k \in Frag : <<r[2], k>> \in R /\ <<r[1], k>> \notin R}
      Wit(r) == CHOOSE k \in Frag : <<r[2], k>> \in R /\ <<r[1], k>> \notin R
  IN    {<<"Sound", q[1], q[2], Shape({q[1], q[2]})>> : q \in {q \in R : ~SubTop(CT, U[q[1]], U[q[2]])}}
   \cup {<<"AssignableSound", q[1], q[2], Shape({q[1], q[2]})>> : q \in {q \in RA \ R : ~SubTop(CT, U[q[1]], U[q[2]])}}
   \cup {<<"Exact", q[1], q[2], Shape({q[1], q[2]})>> : q \in {q \in Frag \X Frag : (q \in R) # Sub(CT, U[q[1]], U[q[2]])}}
   \cup {<<"Reflexive", i, i, "plain">> : i \in {x \in Frag : <<x, x>> \notin R}}
   \cup {<<"Transitive", r[1], r[2], Shape({r[1], r[2], Wit(r)})>> : r \in NonTrans}
   \cup {<<"BottomBelowAll", q[1], q[2], "plain">> : q \in {q \in I \X I : U[q[1]] = Bot /\ q \notin R}}
   \* design check of the specification itself: the declarative relation is transitive on the fragment of this table
   \cup (LET D == {q \in Frag \X Frag : Sub(CT, U[q[1]], U[q[2]])} IN
         {<<"SPEC-NotTransitive", q[1], q[2], "spec">> : q \in {r \in D : \E k \in Frag : <<r[2], k>> \in D /\ <<r[1], k>> \notin D}})
   \cup {<<"NoException", cs.errs[e][1], cs.errs[e][2], "plain">> : e \in DOMAIN cs.errs}

\* one representative per (clause, shape) class, plus the total count
Report == LET b == Bad(Cases[c]) IN
          b = {} \/ PrintT(ToJson([case |-> Cases[c].id, n |-> Cardinality(b),
                                   bad |-> {CHOOSE x \in {y \in b : y[1] = cs[1] /\ y[4] = cs[2]} : TRUE : cs \in {<<y[1], y[4]>> : y \in b}}]))
=============================================================================
