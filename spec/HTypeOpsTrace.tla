--------------------------- MODULE HTypeOpsTrace ---------------------------
\* V step of C08 / C09: recorded calls of the helpers (synthetic or observed during generation) against HTypeOps.
EXTENDS HTypeOps, TLC, Json, IOUtils
Cases == JsonDeserialize(IOEnv.TRACE_FILE).cases
VARIABLES c, e
Init == c \in DOMAIN Cases /\ e \in DOMAIN Cases[c].events
Next == UNCHANGED <<c, e>>
Rng(s) == {s[j] : j \in DOMAIN s}

\* known-finding shapes of a search event, most specific first
Shape(CT, ev) ==
  IF InOverProjection(ev.T) THEN "InOverProjection"
  ELSE IF DependentParam(CT, ev.T) THEN "DependentParam"
  ELSE IF TextualDiffers(CT, ev.T) \/ \E r \in NonSubtypes(CT, ev.T, Rng(ev.res)) : TextualDiffers(CT, r) THEN "TextualSupertypes"
  ELSE "plain"
BadEvent(CT, ev) ==
  CASE ev.kind = "find_subtypes" ->
         {<<cl, Shape(CT, ev)>> : cl \in FindSubtypesBad(CT, ev.T, Rng(ev.res), ev.include_self, ev.concrete_only, ev.self_in)}
    [] ev.kind = "find_irrelevant" ->
         {<<cl, IF ev.T.k = "P" THEN "Primitive"
                ELSE IF TextualDiffers(CT, ev.T) \/ \E r \in Related(CT, ev.T, Rng(ev.res)) : TextualDiffers(CT, r) THEN "TextualSupertypes"
                ELSE "plain">> : cl \in FindIrrelevantBad(CT, ev.T, Rng(ev.res), ev.saw_none)}
    [] OTHER -> {}
ExcBad(CT, ev) == IF ev.exc # <<>> THEN {<<"NoException", IF ev.kind \in {"find_subtypes", "find_irrelevant"} THEN Shape(CT, ev) ELSE "plain">>} ELSE {}
Offending(CT, ev) ==
  CASE ev.kind = "find_subtypes" -> NonSubtypes(CT, ev.T, Rng(ev.res))
    [] ev.kind = "find_irrelevant" -> Related(CT, ev.T, Rng(ev.res))
    [] OTHER -> {}
Report == LET ev == Cases[c].events[e]  b == BadEvent(Cases[c].ct, ev) \cup ExcBad(Cases[c].ct, ev) IN
          b = {} \/ PrintT(ToJson([case |-> Cases[c].id, event |-> e, bad |-> b, off |-> Offending(Cases[c].ct, ev)]))
=============================================================================
