--------------------------- MODULE HTypeOpsTrace ---------------------------
\* V step of C08 / C09: recorded calls of the helpers (synthetic or observed during generation) against HTypeOps.
EXTENDS HTypeOps, TLC, Json, IOUtils
Cases == JsonDeserialize(IOEnv.TRACE_FILE).cases
VARIABLES c, e
Init == c \in DOMAIN Cases /\ e \in DOMAIN Cases[c].events
Next == UNCHANGED <<c, e>>
Rng(s) == {s[j] : j \in DOMAIN s}

\* known-finding shapes of a search event, most specific first
Shape(CT, ev) ==
  IF DependentParam(CT, ev.T) THEN "DependentParam." \o DepSub(CT, ev.T)
  ELSE IF ParamInBound(CT, ev.T) THEN "ParamInBound"
  ELSE IF InOverProjection(CT, ev.T) THEN "InOverProjection"
  ELSE IF TextualDiffers(CT, ev.T) \/ \E r \in NonSubtypes(CT, ev.T, Rng(ev.res)) : TextualDiffers(CT, r) THEN "TextualSupertypes"
  ELSE "plain"
\* known-finding shapes for instantiation:
\* DependentRequest - the caller requests an assignment for a parameter that is tied to another one by a bound (its own bound
\*   mentions a parameter, or another parameter's bound mentions it); the helper then rewrites the other assignments
\*   (update_type_var_bound_rec) in ways the contract does not allow;
\* BoundChain (F14) - no such request, but the declaration has a parameter that is both bounded by a parameter and mentioned in a
\*   later bound (T3 : T2 : T1): the helper's inner loop reuses the index variable and projections land on mentioned parameters
Tied(tps, i) == (tps[i].b # <<>> /\ FreeVars(tps[i].b[1]) # {}) \/ MentionedByOther(tps, i)
InstShape(ev, args) ==
  IF \E i \in DOMAIN ev.tps : ev.tps[i].n \in DOMAIN ev.pre /\ Tied(ev.tps, i) THEN "DependentRequest"
  ELSE IF \E i \in DOMAIN ev.tps : ev.tps[i].b # <<>> /\ FreeVars(ev.tps[i].b[1]) # {} /\ MentionedByOther(ev.tps, i) THEN "BoundChain"
  ELSE "plain"
\* When the caller's request targets a tied parameter the helper rewrites the other assignments to fit (and what "kept when
\* consistent with the bounds" means is not determined by the statement); there only the clauses that do not depend on the
\* request are judged.
\* ... unless every request is a plain type on a pure chain of variable bounds (T3 : T2 : T1 : ground) that it satisfies: then the
\* bounds of the parameters the caller did not request are still judged
ParamIdx(tps, x) == IF \E i \in DOMAIN tps : tps[i].n = x THEN CHOOSE i \in DOMAIN tps : tps[i].n = x ELSE 0
RECURSIVE ChainOK(_, _, _, _, _)
ChainOK(CT, tps, pre, j, x) ==
  LET b == tps[j].b IN
  IF b = <<>> THEN TRUE
  ELSE IF b[1].k = "V" THEN (LET k == ParamIdx(tps, b[1].n) IN
                             IF k = 0 THEN FALSE
                             ELSE IF tps[k].n \in DOMAIN pre THEN (pre[tps[k].n].k # "W" /\ SubTop(CT, x, pre[tps[k].n]))
                             ELSE ChainOK(CT, tps, pre, k, x))
  ELSE IF Ground(b[1]) THEN SubTop(CT, x, b[1]) ELSE FALSE
SimpleRequests(CT, tps, pre) ==
  \A j \in DOMAIN tps : tps[j].n \in DOMAIN pre => (pre[tps[j].n].k \notin {"W", "P", "K"} /\ ChainOK(CT, tps, pre, j, pre[tps[j].n]))
OptOf(ev) == IF "opt" \in DOMAIN ev THEN ev.opt ELSE DefaultOpt
InstJudged(CT, ev, o) ==
  LET b == InstBad(CT, ev.tps, ev.pre, EffChoices(ev.tps, ev.choices, OptOf(ev)), ev.sw, ev.outs[o].args, ev.outs[o].map)
      always == {"OneArgumentPerParameter", "NoPrimitiveOrBareArgument", "SwitchesDeep", "MapConsistent"} IN
  IF InstShape(ev, ev.outs[o].args) = "DependentRequest"
  THEN b \cap (always \cup (IF SimpleRequests(CT, ev.tps, ev.pre) THEN {"WithinBound"} ELSE {})) ELSE b
BadEvent(CT, ev) ==
  CASE ev.kind = "find_subtypes" ->
         {<<cl, Shape(CT, ev)>> : cl \in FindSubtypesBad(CT, ev.T, Rng(ev.res), ev.include_self, ev.concrete_only, ev.self_in)}
    [] ev.kind = "find_irrelevant" ->
         {<<cl, IF ev.T.k = "P" THEN "Primitive"
                \* related only through the implicit rule "every type is below the top type" (the implementation knows the top type
                \* only where it is declared as a supertype)
                ELSE IF \A r \in Related(CT, ev.T, Rng(ev.res)) : ~Sub(CT, AsType(CT, r), Hat(ev.T)) /\ ~Sub(CT, Hat(ev.T), AsType(CT, r)) THEN "ImplicitTop"
                ELSE IF TextualDiffers(CT, Hat(ev.T)) \/ \E r \in Related(CT, ev.T, Rng(ev.res)) : TextualDiffers(CT, r) THEN "TextualSupertypes"
                ELSE "plain">> : cl \in FindIrrelevantBad(CT, ev.T, Rng(ev.res), ev.saw_none)}
    [] ev.kind = "instantiate" ->
         UNION {{<<cl, InstShape(ev, ev.outs[o].args)>> : cl \in InstJudged(CT, ev, o)} : o \in DOMAIN ev.outs}
    [] OTHER -> {}
ExcBad(CT, ev) == IF ev.exc # <<>> THEN {<<"NoException", IF ev.kind \in {"find_subtypes", "find_irrelevant"} THEN Shape(CT, ev) ELSE "plain">>} ELSE {}
Offending(CT, ev) ==
  CASE ev.kind = "find_subtypes" -> NonSubtypes(CT, ev.T, Rng(ev.res))
    [] ev.kind = "find_irrelevant" -> Related(CT, ev.T, Rng(ev.res))
    [] ev.kind = "instantiate" ->
         UNION {{<<cl, ev.outs[o].args>> : cl \in InstJudged(CT, ev, o)} : o \in DOMAIN ev.outs}
    [] OTHER -> {}
Report == LET ev == Cases[c].events[e]  b == BadEvent(Cases[c].ct, ev) \cup ExcBad(Cases[c].ct, ev) IN
          b = {} \/ PrintT(ToJson([case |-> Cases[c].id, event |-> e, bad |-> b, off |-> Offending(Cases[c].ct, ev)]))
=============================================================================
