------------------------------ MODULE HArgsTrace ------------------------------
EXTENDS HArgs, IOUtils
Runs == JsonDeserialize(IOEnv.TRACE_FILE).runs
VARIABLE r
TInit == r \in DOMAIN Runs /\ c = Runs[r].config
TNext == UNCHANGED <<r, c>>
Report == Runs[r].outcome = Decision(c) \/ PrintT(ToJson([config |-> c, expected |-> Decision(c), observed |-> Runs[r].outcome]))
=============================================================================
