------------------------------- MODULE HReplay -------------------------------
\* Saved programs replay faithfully (property C13).  A program value is saved at one of the pipeline stages at which the
\* driver saves (crash points of the property: after generation, after each erasure, after overwriting); the saved copy is
\* loaded back; from then on every operation applied to the original and to the loaded copy (with the same random choices)
\* must be observationally equal.  Observations are opaque digests: the translated text, the mutation's report and the text
\* of its result.
EXTENDS Naturals, Sequences, FiniteSets, TLC, Json
CONSTANT MaxOps
Stages == {"generated", "erased1", "erased2", "overwritten"}
Ops == {"translate_own", "translate_other", "erase", "overwrite", "redump", "reload"}     \* reload: read the saved file once more
VARIABLES stage,     \* where the program was saved
          ops,       \* operations applied since then, to both copies
          done
Init == stage \in Stages /\ ops = <<>> /\ done = FALSE
\* mutations change the copies (both in the same way), so the order of operations matters
Apply(op) == Len(ops) < MaxOps /\ ~done /\ ops' = Append(ops, op) /\ UNCHANGED <<stage, done>>
Finish == Len(ops) >= 1 /\ ~done /\ done' = TRUE /\ UNCHANGED <<stage, ops>> /\ PrintT(ToJson([stage |-> stage, ops |-> ops]))
Next == (\E op \in Ops : Apply(op)) \/ Finish
NextSim == (\E op \in Ops : Apply(op)) \/ (Len(ops) = MaxOps /\ Finish)

\* the property, per operation: what is observed on the loaded copy equals what is observed on the original
Faithful(obsOriginal, obsLoaded) == obsOriginal = obsLoaded
=============================================================================
