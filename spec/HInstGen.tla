------------------------------ MODULE HInstGen ------------------------------
\* G step of C08: generic declarations with bounded, mutually dependent and variant type parameters; every partial
\* pre-assignment from a small pool, variance-choice map and switch setting.
EXTENDS HTypes, TLC, Json, SequencesExt, FiniteSets
VARIABLE q
Vs == {"inv", "out", "in"}
Num == Cls("Number", <<>>)
IntT == Cls("Int", <<>>)
Str == Cls("String", <<>>)
TP(n, v, b) == [n |-> n, v |-> v, b |-> b]
v1 == Var("T1", <<>>)
Foo(x) == Cls("Foo", <<x>>)
\* helper classes: Foo<T>; Bar : Foo<Int>; Baz<T> : Foo<T>; abstract Abs; Reg (regular, no supertypes)
Decl(d, va, vb) ==
  CASE d = "G1" -> <<TP("T1", va, <<>>)>>
    [] d = "G2" -> <<TP("T1", va, <<Num>>)>>
    [] d = "G3" -> <<TP("T1", va, <<>>), TP("T2", vb, <<v1>>)>>
    [] d = "G4" -> <<TP("T1", "inv", <<Num>>), TP("T2", "inv", <<Var("T1", <<Num>>)>>), TP("T3", "inv", <<Var("T2", <<Var("T1", <<Num>>)>>)>>)>>
    [] d = "G5" -> <<TP("T1", va, <<>>), TP("T2", vb, <<Foo(v1)>>)>>
    [] d = "G6" -> <<TP("T1", va, <<>>), TP("T2", vb, <<>>)>>
    \* the language's built-in function type Function2<A1, A2, R> (the driver takes the real constructor and its declared variance)
    [] d = "F2" -> <<TP("A1", "inv", <<>>), TP("A2", "inv", <<>>), TP("R", "inv", <<>>)>>
Table(d, va, vb) ==
  [Any    |-> [tp |-> <<>>, sup |-> <<>>, kind |-> "regular"],
   Number |-> [tp |-> <<>>, sup |-> <<TopT>>, kind |-> "regular"],
   Int    |-> [tp |-> <<>>, sup |-> <<Num>>, kind |-> "regular"],
   String |-> [tp |-> <<>>, sup |-> <<TopT>>, kind |-> "regular"],
   Foo    |-> [tp |-> <<TP("T", "inv", <<>>)>>, sup |-> <<>>, kind |-> "regular"],
   Bar    |-> [tp |-> <<>>, sup |-> <<Foo(IntT)>>, kind |-> "regular"],
   Baz    |-> [tp |-> <<TP("T", "inv", <<>>)>>, sup |-> <<Foo(Var("T", <<>>))>>, kind |-> "regular"],
   Abs    |-> [tp |-> <<>>, sup |-> <<>>, kind |-> "abstract"],
   Reg    |-> [tp |-> <<>>, sup |-> <<>>, kind |-> "regular"],
   G      |-> [tp |-> Decl(d, va, vb), sup |-> <<>>, kind |-> "regular"]]
Order == <<"Foo", "Bar", "Baz", "Abs", "Reg", "G">>
PreTerms == {IntT, Num, Str, Wild("out", <<Num>>), Wild("in", <<IntT>>), Foo(IntT), Cls("Bar", <<>>)}
Names(tps) == {tps[i].n : i \in DOMAIN tps}
\* every partial function from parameter names to PreTerms
Pres(tps) == UNION {[S -> PreTerms] : S \in SUBSET Names(tps)}
NoChoices == [on |-> FALSE, m |-> [x \in {} |-> <<TRUE, TRUE>>]]         \* the caller passes no variance choices at all
VChoices(tps) == {NoChoices} \cup {[on |-> TRUE, m |-> [x \in {} |-> <<TRUE, TRUE>>]]}
                 \cup {[on |-> TRUE, m |-> [x \in Names(tps) |-> c]] : c \in {<<FALSE, FALSE>>, <<TRUE, FALSE>>, <<FALSE, TRUE>>}}
Switches == [disUse : BOOLEAN, disContra : BOOLEAN]
Shapes == {[d |-> d, va |-> va, vb |-> vb] : d \in {"G1", "G2"}, va \in Vs, vb \in {"inv"}}
          \cup {[d |-> d, va |-> va, vb |-> vb] : d \in {"G3", "G5", "G6"}, va \in Vs, vb \in Vs}
          \cup {[d |-> "G4", va |-> "inv", vb |-> "inv"]}
\* bounds never mention a contravariant parameter (BoundsWF of HTypes); generic functions: no variance at all
D(sh) == Decl(sh.d, sh.va, sh.vb)
GoodShapes == {s \in Shapes : BoundsWF([G |-> [tp |-> D(s), sup |-> <<>>]])}
\* the caller's options (HTypeOps.EffChoices): enable_pecs, disable_variance_functions, disable_variance
DefOpt == [isfun |-> FALSE, pecs |-> TRUE, dvf |-> FALSE, dv |-> FALSE]
Opts(isfun) == [isfun : {isfun}, pecs : BOOLEAN, dvf : BOOLEAN, dv : BOOLEAN]
FShape == [d |-> "F2", va |-> "inv", vb |-> "inv"]
SmallPres(tps) == {pr \in Pres(tps) : Cardinality(DOMAIN pr) <= 1 /\ \A x \in DOMAIN pr : pr[x] \in {IntT, Wild("out", <<Num>>)}}
Init == \/ \E sh \in GoodShapes : \E pr \in Pres(D(sh)) : \E sw \in Switches :
             \/ \E ch \in VChoices(D(sh)) : q = [sh |-> sh, pre |-> pr, choices |-> ch, sw |-> sw, fn |-> FALSE, opt |-> DefOpt]
             \/ sh.va = "inv" /\ sh.vb = "inv" /\ q = [sh |-> sh, pre |-> pr, choices |-> NoChoices, sw |-> sw, fn |-> TRUE, opt |-> DefOpt]
        \* function types under every combination of the caller's options; ordinary classes with variance disabled by the caller
        \/ \E pr \in SmallPres(D(FShape)) : \E sw \in Switches : \E ch \in VChoices(D(FShape)) : \E o \in Opts(TRUE) :
             q = [sh |-> FShape, pre |-> pr, choices |-> ch, sw |-> sw, fn |-> FALSE, opt |-> o]
        \/ \E sh \in {s \in GoodShapes : s.d \in {"G1", "G6"}} : \E pr \in SmallPres(D(sh)) : \E sw \in Switches : \E ch \in VChoices(D(sh)) :
             \E o \in {x \in Opts(FALSE) : x.dv \/ x.dvf} :
             q = [sh |-> sh, pre |-> pr, choices |-> ch, sw |-> sw, fn |-> FALSE, opt |-> o]
Next == UNCHANGED q
Consistent == TRUE
Emit == Consistent => PrintT(ToJson([id |-> q, ct |-> Table(q.sh.d, q.sh.va, q.sh.vb), order |-> Order, tps |-> Decl(q.sh.d, q.sh.va, q.sh.vb)]))
=============================================================================
