------------------------------ MODULE HMutation ------------------------------
\* The two mutations as steps on abstract programs (properties C03, C04).  A program is the record produced by
\* harness/pser.py ([ct, g, ev]); a mutation step relates the program before to the program after.
\*   Erase     - only removes declared types of variables, declared return types of functions and explicit type arguments of
\*               constructor / generic calls (the inferable flag); every other field of every event and declaration is identical
\*   Overwrite - changes exactly one declared type (a variable's, a function's return type, one explicit type argument)
\*   NoOp      - nothing changes
EXTENDS Naturals, Sequences, FiniteSets

\* the annotation sites of an event, blanked out
MaskFun(f) == [f EXCEPT !.declared_ret = <<>>]
MaskEv(e) ==
  CASE e.ev = "VarDecl" -> [e EXCEPT !.vt = <<>>]
    [] e.ev = "Exit" /\ e.kind = "Fun" -> [e EXCEPT !.sig = MaskFun(@)]
    [] e.ev = "Enter" /\ e.kind = "Fun" -> [e EXCEPT !.noret = TRUE]          \* (the same annotation, as seen when the function is entered)
    [] e.ev = "New" -> [e EXCEPT !.infer = TRUE]
    [] e.ev = "Call" -> [e EXCEPT !.infer = TRUE]
    [] OTHER -> e
MaskClass(c) == [c EXCEPT !.funs = [j \in DOMAIN c.funs |-> MaskFun(c.funs[j])]]
MaskCT(ct) == [n \in DOMAIN ct |-> MaskClass(ct[n])]
MaskG(g) == [g EXCEPT !.funs = [j \in DOMAIN g.funs |-> MaskFun(g.funs[j])]]

\* an annotation may only disappear: after is before, or before with the annotation removed
OnlyRemoved(b, a) ==
  CASE b.ev = "VarDecl" -> a.vt \in {b.vt, <<>>}
    [] b.ev = "Exit" /\ b.kind = "Fun" -> a.sig.declared_ret \in {b.sig.declared_ret, <<>>}
    [] b.ev \in {"New", "Call"} -> (b.infer => a.infer)
    [] b.ev = "Enter" /\ b.kind = "Fun" -> (b.noret => a.noret)
    [] OTHER -> TRUE

EraseFrameBad(before, after) ==
  IF Len(before.ev) # Len(after.ev) THEN {<<"Frame.NodeCount", 0>>} ELSE
       {<<"Frame.OtherFieldChanged", i>> : i \in {j \in DOMAIN before.ev : MaskEv(before.ev[j]) # MaskEv(after.ev[j])}}
  \cup {<<"Frame.AnnotationAddedOrChanged", i>> : i \in {j \in DOMAIN before.ev : MaskEv(before.ev[j]) = MaskEv(after.ev[j]) /\ ~OnlyRemoved(before.ev[j], after.ev[j])}}
  \cup (IF MaskCT(before.ct) # MaskCT(after.ct) THEN {<<"Frame.ClassTableChanged", 0>>} ELSE {})
  \cup (IF MaskG(before.g) # MaskG(after.g) THEN {<<"Frame.TopLevelChanged", 0>>} ELSE {})
Erased(before, after) == {j \in DOMAIN before.ev : before.ev[j] # after.ev[j]}

NoOpBad(before, after) ==
  (IF before.ev # after.ev THEN {<<"NoOp.WalkChanged", 0>>} ELSE {})
  \cup (IF before.ct # after.ct \/ before.g # after.g THEN {<<"NoOp.DeclarationsChanged", 0>>} ELSE {})

\* ---- Overwrite ------------------------------------------------------------------------------------------------------
\* (the noret flag on the Enter event of a function mirrors the declared return type recorded on its Exit event - one site, judged there)
NoRetMasked(e) == IF e.ev = "Enter" /\ e.kind = "Fun" THEN [e EXCEPT !.noret = TRUE] ELSE e
DiffEvents(before, after) == {j \in DOMAIN before.ev : NoRetMasked(before.ev[j]) # NoRetMasked(after.ev[j])}
\* the single overwritten site: [kind, name, old, new]
SiteOf(b, a) ==
  CASE b.ev = "VarDecl" -> [kind |-> "var", name |-> b.name,
                            old |-> IF b.vt # <<>> THEN b.vt ELSE b.it, new |-> IF a.vt # <<>> THEN a.vt ELSE a.it]
    [] b.ev = "Exit" /\ b.kind = "Fun" -> [kind |-> "ret", name |-> b.name, old |-> b.ret, new |-> a.ret]
    [] b.ev = "New" -> [kind |-> "new", name |-> b.t.n, old |-> <<b.t>>, new |-> <<a.t>>]
    [] b.ev = "Call" -> [kind |-> "call", name |-> b.name, old |-> b.targs, new |-> a.targs]
    [] OTHER -> [kind |-> "other", name |-> "", old |-> <<>>, new |-> <<>>]
\* everything but the one declared type is unchanged at the site
SiteShapeOK(b, a) ==
  CASE b.ev = "VarDecl" -> [b EXCEPT !.vt = <<>>, !.it = <<>>] = [a EXCEPT !.vt = <<>>, !.it = <<>>] /\ a.vt # <<>>
    [] b.ev = "Exit" /\ b.kind = "Fun" -> [b EXCEPT !.ret = <<>>, !.sig = [@ EXCEPT !.ret = <<>>, !.declared_ret = <<>>]]
                                          = [a EXCEPT !.ret = <<>>, !.sig = [@ EXCEPT !.ret = <<>>, !.declared_ret = <<>>]]
    \* (an overwritten type argument is explicit afterwards: an inferable flag set by an earlier erasure is cleared)
    [] b.ev = "New" -> /\ [b EXCEPT !.t = [@ EXCEPT !.a = <<>>], !.infer = FALSE] = [a EXCEPT !.t = [@ EXCEPT !.a = <<>>], !.infer = FALSE] /\ ~a.infer
                       /\ Len(b.t.a) = Len(a.t.a) /\ Cardinality({j \in DOMAIN b.t.a : b.t.a[j] # a.t.a[j]}) = 1
    [] b.ev = "Call" -> /\ [b EXCEPT !.targs = <<>>, !.infer = FALSE] = [a EXCEPT !.targs = <<>>, !.infer = FALSE] /\ ~a.infer
                        /\ Len(b.targs) = Len(a.targs) /\ Cardinality({j \in DOMAIN b.targs : b.targs[j] # a.targs[j]}) = 1
    [] OTHER -> FALSE
\* the replaced and the replacing type at the site
OldNew(b, a) ==
  CASE b.ev \in {"VarDecl"} -> <<SiteOf(b, a).old, SiteOf(b, a).new>>
    [] b.ev = "Exit" -> <<b.ret, a.ret>>
    [] b.ev = "New" -> LET j == CHOOSE j \in DOMAIN b.t.a : b.t.a[j] # a.t.a[j] IN <<<<b.t.a[j]>>, <<a.t.a[j]>>>>
    [] b.ev = "Call" -> LET j == CHOOSE j \in DOMAIN b.targs : b.targs[j] # a.targs[j] IN <<<<b.targs[j]>>, <<a.targs[j]>>>>
    [] OTHER -> <<<<>>, <<>>>>
OverwriteFrameBad(before, after) ==
  IF Len(before.ev) # Len(after.ev) THEN {<<"Frame.NodeCount", 0>>} ELSE
  LET D == DiffEvents(before, after) IN
  IF D = {} THEN {<<"Frame.NothingChanged", 0>>}
  ELSE IF Cardinality(D) > 1 THEN {<<"Frame.MoreThanOneSite", j>> : j \in D}
  ELSE LET j == CHOOSE x \in D : TRUE IN
       (IF SiteShapeOK(before.ev[j], after.ev[j]) THEN {} ELSE {<<"Frame.SiteShape", j>>})
=============================================================================
