---------------------------- MODULE HMutationTrace ----------------------------
\* V step of C03 / C04 (frame part): recorded before/after pairs of the real mutations against HMutation; for overwriting also
\* the relation between the replaced and the replacing type, judged by HTypes on the program's own class table.
EXTENDS HMutation, HTypes, TLC, Json, IOUtils
Cases == JsonDeserialize(IOEnv.TRACE_FILE).cases
VARIABLE c
Init == c \in DOMAIN Cases
Next == UNCHANGED c
Opt(x) == IF x = <<>> THEN Bot ELSE x[1]
\* a bare projection in a declaration position denotes its bound
Decl(t) == IF t.k = "W" /\ t.a # <<>> THEN t.a[1] ELSE t
RECURSIVE Known(_, _)
Known(ct, t) == (t.k = "C" => t.n \in DOMAIN ct /\ Len(t.a) = Len(ct[t.n].tp)) /\ \A j \in DOMAIN t.a : Known(ct, t.a[j])
Related(ct, o, n) == Known(ct, o) /\ Known(ct, n) /\ (SubTop(ct, Decl(o), Decl(n)) \/ SubTop(ct, Decl(n), Decl(o)))
\* related already by the declared supertypes alone (without the implicit "everything is below the top type")
RelatedDeclared(ct, o, n) == Sub(ct, Decl(o), Decl(n)) \/ Sub(ct, Decl(n), Decl(o))
Bad(cs) ==
  CASE cs.kind = "erase" -> IF cs.transformed THEN EraseFrameBad(cs.before, cs.after) ELSE NoOpBad(cs.before, cs.after)
    [] cs.kind = "overwrite" ->
         IF cs.injected = "" THEN NoOpBad(cs.before, cs.after) \cup (IF cs.text_before # cs.text_after THEN {<<"NoOp.TranslationChanged", 0>>} ELSE {})
         ELSE LET fb == OverwriteFrameBad(cs.before, cs.after) IN
              IF fb # {} THEN fb
              ELSE LET j == CHOOSE x \in DiffEvents(cs.before, cs.after) : TRUE
                       on == OldNew(cs.before.ev[j], cs.after.ev[j])
                       site == SiteOf(cs.before.ev[j], cs.after.ev[j]) IN
                   (IF on[1] # <<>> /\ on[2] # <<>> /\ Related(cs.after.ct, on[1][1], on[2][1])
                    THEN {<<IF RelatedDeclared(cs.after.ct, on[1][1], on[2][1]) THEN "Unrelated" ELSE "Unrelated.ImplicitTop", j>>} ELSE {})
                   \cup (IF cs.msg_old = "" \/ cs.msg_new = "" \/ cs.msg_old = cs.msg_new THEN {<<"Message.Types", j>>} ELSE {})
                   \* the types the mutation reports (the argument and the result of its irrelevant-type search, which the message
                   \* renders) are the types that were actually replaced / put in place
                   \cup (IF cs.rep_old # <<>> /\ on[1] # <<>> /\ cs.rep_old[1] # on[1][1] THEN {<<"Message.ReportedOldIsReplaced", j>>} ELSE {})
                   \cup (IF cs.rep_new # <<>> /\ on[2] # <<>> /\ cs.rep_new[1] # on[2][1] THEN {<<"Message.ReportedNewIsInPlace", j>>} ELSE {})
                   \cup (IF site.kind \in {"var", "ret"} /\ site.name \notin {cs.msg_node[k] : k \in DOMAIN cs.msg_node} /\ ~(site.kind = "ret" /\ "__RET__" \in {cs.msg_node[k] : k \in DOMAIN cs.msg_node})
                         THEN {<<"Message.Node", j>>} ELSE {})
    [] OTHER -> {}
Report == LET cs == Cases[c]  b == Bad(cs) IN
          PrintT(ToJson([case |-> cs.id, bad |-> b,
                         sites |-> IF cs.kind = "erase" THEN Erased(cs.before, cs.after) ELSE DiffEvents(cs.before, cs.after)]))
=============================================================================
