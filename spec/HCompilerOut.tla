---------------------------- MODULE HCompilerOut ----------------------------
\* Compiler diagnostics as a stream of chunks, with the ground truth of what the analysis of src/compilers/* must
\* return for it (property C14).  A chunk is what a compiler prints as one unit: an error or warning diagnostic for a
\* file (header line + quoted source + caret + detail lines), a note, a summary line, or an internal stack trace.
\* The rendering of a chunk into a compiler's concrete syntax lives in the harness (harness/render.py); the meaning of a
\* stream is defined here and does not depend on the rendering.
EXTENDS Naturals, Sequences, FiniteSets

CONSTANTS NFiles,       \* files of the batch are 1..NFiles
          Msgs,         \* message ids of error diagnostics
          Filtered      \* the message ids that match the user-supplied filter pattern
Kinds == {"err", "warn", "note", "summary", "crash"}
Chunk == [k : {"err"}, f : 1..NFiles, m : Msgs] \cup [k : {"warn"}, f : 1..NFiles, m : {0}]
         \cup [k : {"note", "summary"}, f : {0}, m : {0}]
         \* a stack trace in one of three printed forms (0: the compiler's own report, exception name at the start of its line;
         \* 1: reported by the launcher - Exception in thread "main" <name>; 2: wrapped - <wrapper>: <name>: ...)
         \cup [k : {"crash"}, f : {0}, m : 0..2]

IsCrash(cs) == \E j \in DOMAIN cs : cs[j].k = "crash"
\* error diagnostics that count: not matching the filter
Counted(cs) == SelectSeq(cs, LAMBDA c : c.k = "err" /\ c.m \notin Filtered)
FailedFiles(cs) == {Counted(cs)[j].f : j \in DOMAIN Counted(cs)}
\* the messages attributed to file f, in order of appearance
MsgsOf(cs, f) == LET own == SelectSeq(Counted(cs), LAMBDA c : c.f = f) IN [j \in DOMAIN own |-> own[j].m]

\* what the analysis must return: res = [crash : BOOLEAN, failed : set of <<file, Seq(msg)>>]
AnalysisBad(cs, res) ==
  IF IsCrash(cs) THEN (IF res.crash THEN {} ELSE {"CrashMissed"})
  ELSE (IF res.crash THEN {"FalseCrash"} ELSE
        (IF {p[1] : p \in res.failed} \ FailedFiles(cs) # {} THEN {"FileAdded"} ELSE {})
        \cup (IF FailedFiles(cs) \ {p[1] : p \in res.failed} # {} THEN {"FileDropped"} ELSE {})
        \cup (IF \E p \in res.failed : p[1] \in FailedFiles(cs) /\ p[2] # MsgsOf(cs, p[1]) THEN {"MessagesWrong"} ELSE {}))

\* design-level sanity (MC): warnings, notes and summaries never change the verdict; order of unrelated files is irrelevant
Neutral(c) == c.k \in {"warn", "note", "summary"} \/ (c.k = "err" /\ c.m \in Filtered)
=============================================================================
