---------------------------- MODULE HGraphTrace ----------------------------
(* V step of C19: every recorded result of the real graph functions is compared with HGraph's definitions. *)
(* One TLC state per recorded case; verdicts are total (every failing clause of every case is printed).    *)
EXTENDS HGraph, TLC, Json, IOUtils
Cases == JsonDeserialize(IOEnv.TRACE_FILE).cases
VARIABLE c
Init == c \in DOMAIN Cases
Next == UNCHANGED c

Graph(cs) == [x \in 1..cs.n |-> ToSet(cs.g[x])]
\* a list-valued result must enumerate exactly the set S, each element once
AsSetOK(lst, S) == ToSet(lst) = S /\ Len(lst) = Cardinality(S)

Fns == {"reachable", "bi_reachable", "connected", "find_all_reachable", "find_all_bi_reachable", "find_all_connected",
        "find_sources", "find_all_paths", "find_longest_paths", "dfs", "none_reachable", "none_connected"}

Bad(cs) ==
  LET g == Graph(cs)  V == DOMAIN g IN
  {<<f, u>> \in Fns \X V :
     LET r == cs.res[u] IN
     CASE f = "reachable"    -> \E v \in V : r.reachable[v] # Reach(g, u, v)
       [] f = "bi_reachable" -> \E v \in V : r.bi_reachable[v] # BiReach(g, u, v)
       [] f = "connected"    -> \E v \in V : r.connected[v] # WeakConn(g, u, v)
       [] f = "find_all_reachable"    -> ~AsSetOK(r.find_all_reachable, ReachSet(g, u))
       [] f = "find_all_bi_reachable" -> ~AsSetOK(r.find_all_bi_reachable, BiReachSet(g, u))
       [] f = "find_all_connected"    -> ~AsSetOK(r.find_all_connected, ConnSet(g, u))
       [] f = "find_sources"          -> ~AsSetOK(r.find_sources, Sources(g, u))
       [] f = "find_all_paths"        -> ~AsSetOK(r.find_all_paths, SimplePaths(g, u))
       [] f = "find_longest_paths"    -> ~AsSetOK(r.find_longest_paths, MaximalPaths(g, u))
       [] f = "dfs"                   -> ~AsSetOK(r.dfs, DfsTargets(g, u))
       [] f = "none_reachable"        -> \E z \in V : r.none_reachable[z] # NoneReachable(g, u, z)
       [] f = "none_connected"        -> \E z \in V : r.none_connected[z] # NoneConnected(g, u, z)}

Report == LET b == Bad(Cases[c]) IN
          b = {} \/ PrintT(ToJson([case |-> Cases[c].id, bad |-> b]))
=============================================================================
