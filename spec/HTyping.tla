------------------------------- MODULE HTyping -------------------------------
\* The reference type checker and scope resolver for abstract programs (properties C01, C05; in inference mode C03; on
\* overwritten programs C04).  An abstract program is what harness/pser.py extracts from an ast.Program: the class table
\* (CT, built-ins included), the top-level signatures (g) and the walk (ev): the AST in program order as a sequence of events.
\* The checker is a stack machine over the walk - one TLC state per event:
\*   scopes : stack of lexical scopes (variables, local functions, type variables; class scopes expose inherited members)
\*   ts     : stack of the natural types of the sub-expressions walked so far (MARK delimits a body)
\*   viol   : accumulated violations <<program, event, clause, detail, S, T>>  (the walk never stops at the first one)
\* Subtyping is the declarative relation of HTypes (same rules, restated here over the program's own class table so that
\* conditionals - a pair of branch types - and pending diamond types can take part in it).
\* mode = "declared": every annotation is read as written.  mode = "inference": an omitted variable type is the natural
\* type of the initializer, omitted constructor type arguments are solved from the expected type or the arguments.
EXTENDS Naturals, Sequences, FiniteSets, TLC, Json, IOUtils

Data == JsonDeserialize(IOEnv.TRACE_FILE)
Progs == Data.progs
VARIABLES p, i, scopes, ts, viol
vars == <<p, i, scopes, ts, viol>>

P == Progs[p]
CT == P.ct
Ev == P.ev
\* canonical names of the built-ins (harness/hlib.py maps every language's built-ins to the names of src/ir/builtins.py)
NM == [top |-> "Any", unit |-> "Void", bool |-> "Boolean", char |-> "Char", string |-> "String", int |-> "Int", number |-> "Number", array |-> "Array"]
Mode == P.mode

Cls(n, a) == [k |-> "C", n |-> n, a |-> a]
Wild(v, a) == [k |-> "W", n |-> v, a |-> a]
Var(n, a) == [k |-> "V", n |-> n, a |-> a]
Bot == [k |-> "N", n |-> "Nothing", a |-> <<>>]
Mark == [k |-> "MARK", n |-> "", a |-> <<>>]
TopT == Cls(NM.top, <<>>)
UnitT == Cls(NM.unit, <<>>)
BoolT == Cls(NM.bool, <<>>)
EmptyMap == [x \in {} |-> Bot]

Kind(t) == IF t.k = "P" THEN "C" ELSE t.k
Ops == INSTANCE HOperands
RECURSIVE SameT(_, _)
SameT(A, B) == IF A.k = "V" /\ B.k = "V" THEN A.n = B.n
               ELSE /\ Kind(A) = Kind(B) /\ A.n = B.n /\ Len(A.a) = Len(B.a)
                    /\ \A j \in DOMAIN A.a : SameT(A.a[j], B.a[j])
IsTop(t) == t.k = "C" /\ t.n = NM.top
IsUnit(t) == Kind(t) = "C" /\ t.n = NM.unit

RECURSIVE Captures(_, _)
Captures(t, m) ==
  IF t.k = "V" THEN t.n \in DOMAIN m /\ m[t.n].k = "W"
  ELSE \E j \in DOMAIN t.a : Captures(t.a[j], m)

RECURSIVE Subst(_, _)
Subst(t, m) ==
  IF t.k = "V" THEN (IF t.n \in DOMAIN m THEN m[t.n] ELSE Var(t.n, [j \in DOMAIN t.a |-> Subst(t.a[j], m)]))
  ELSE [k |-> t.k, n |-> t.n, a |-> [j \in DOMAIN t.a |-> Subst(t.a[j], m)]]

VarianceOf(t, j) == IF t.n \in DOMAIN CT /\ j \in DOMAIN CT[t.n].tp THEN CT[t.n].tp[j].v ELSE "inv"

RECURSIVE Up(_, _), Down(_, _)
Up(t, m) ==
  IF ~Captures(t, m) THEN Subst(t, m)
  ELSE IF t.k = "V" THEN (LET q == m[t.n] IN IF q.n = "out" THEN q.a[1] ELSE IF t.a # <<>> THEN Up(t.a[1], m) ELSE TopT)
  ELSE IF t.k = "W" THEN (IF t.n = "out" THEN Wild("out", <<Up(t.a[1], m)>>)
                          ELSE IF t.n = "in" THEN Wild("in", <<Down(t.a[1], m)>>) ELSE t)
  ELSE [k |-> t.k, n |-> t.n, a |-> [j \in DOMAIN t.a |->
          LET aj == t.a[j]  v == VarianceOf(t, j) IN
          IF ~Captures(aj, m) THEN Subst(aj, m)
          ELSE IF aj.k = "W" THEN Up(aj, m)
          ELSE IF v = "out" THEN Up(aj, m)
          ELSE IF v = "in" THEN Down(aj, m)
          ELSE IF aj.k = "V" THEN m[aj.n]
          ELSE Wild("out", <<Up(aj, m)>>)]]
Down(t, m) ==
  IF ~Captures(t, m) THEN Subst(t, m)
  ELSE IF t.k = "V" THEN (LET q == m[t.n] IN IF q.n = "in" THEN q.a[1] ELSE Bot)
  ELSE IF t.k = "W" THEN (IF t.n = "out" THEN Wild("out", <<Down(t.a[1], m)>>)
                          ELSE IF t.n = "in" THEN Wild("in", <<Up(t.a[1], m)>>) ELSE t)
  ELSE IF \E j \in DOMAIN t.a : Captures(t.a[j], m) /\ t.a[j].k # "W" /\ VarianceOf(t, j) = "inv" THEN Bot
  ELSE [k |-> t.k, n |-> t.n, a |-> [j \in DOMAIN t.a |-> LET aj == t.a[j]  v == VarianceOf(t, j) IN
          IF ~Captures(aj, m) THEN Subst(aj, m) ELSE IF aj.k = "W" THEN Down(aj, m)
          ELSE IF v = "out" THEN Down(aj, m) ELSE Up(aj, m)]]

ParamMap(S) ==
  IF S.n \notin DOMAIN CT \/ Len(CT[S.n].tp) # Len(S.a) THEN EmptyMap
  ELSE LET ps == CT[S.n].tp IN
       [x \in {ps[j].n : j \in DOMAIN ps} |-> S.a[CHOOSE j \in DOMAIN ps : ps[j].n = x]]

RECURSIVE Sub(_, _), Cont(_, _, _), Settle(_)
Sub(S, T) ==
  \/ S.k = "U" /\ Sub(Settle(S.a[1]), T) /\ Sub(Settle(S.a[2]), T)
  \/ S.k \notin {"U", "Q", "QF"} /\ SameT(S, T)
  \/ S.k = "N"
  \/ IsTop(T)
  \/ T.k = "W" /\ T.n = "out" /\ Sub(S, T.a[1])
  \/ /\ Kind(S) = "C" /\ S.n \in DOMAIN CT
     /\ \/ /\ Kind(T) = "C" /\ S.n = T.n /\ Len(S.a) = Len(T.a)
           /\ \A j \in DOMAIN S.a : Cont(S.a[j], T.a[j], VarianceOf(S, j))
        \/ \E j \in DOMAIN CT[S.n].sup : Sub(Up(CT[S.n].sup[j], ParamMap(S)), T)
  \/ /\ S.k = "V" /\ Len(S.a) = 1 /\ Sub(S.a[1], T)
  \/ /\ S.k = "W" /\ S.n = "out" /\ Sub(S.a[1], T)
Cont(A, B, v) ==
  IF B.k = "W" THEN
     CASE B.n = "star" -> TRUE
       [] B.n = "out" -> IsTop(B.a[1]) \/ (IF A.k = "W" THEN A.n = "out" /\ Sub(A.a[1], B.a[1]) ELSE Sub(A, B.a[1]))
       [] B.n = "in"  -> IF A.k = "W" THEN A.n = "in" /\ Sub(B.a[1], A.a[1]) ELSE Sub(B.a[1], A)
       [] OTHER -> FALSE
  ELSE
     CASE v = "inv" -> SameT(A, B)
       [] v = "out" -> IF A.k = "W" THEN A.n = "out" /\ Sub(A.a[1], B) ELSE Sub(A, B)
       [] v = "in"  -> IF A.k = "W" THEN A.n = "in" /\ Sub(B, A.a[1]) ELSE Sub(B, A)

StripW(T) == IF T.k = "W" /\ T.a # <<>> THEN T.a[1] ELSE T
\* ---- inference of omitted constructor type arguments (pending type  [k |-> "Q", n |-> class, a |-> argument natural types])
Unk(x) == "?" \o x
FunTPNames == UNION {{Ev[q].tps[j].n : j \in DOMAIN Ev[q].tps} : q \in {q \in DOMAIN Ev : Ev[q].ev = "Enter" /\ Ev[q].kind = "Fun"}}
IsUnk(x) == (\E c \in DOMAIN CT : \E j \in DOMAIN CT[c].tp : x = Unk(CT[c].tp[j].n)) \/ (\E y \in FunTPNames : x = Unk(y))
RECURSIVE SupersT(_)
SupersT(T) == {T} \cup (IF Kind(T) = "C" /\ T.n \in DOMAIN CT THEN UNION {SupersT(Up(CT[T.n].sup[j], ParamMap(T))) : j \in DOMAIN CT[T.n].sup} ELSE {})
RECURSIVE Bindings(_, _)
Bindings(pat, act) ==
  IF act.k \in {"N", "Q", "QF", "U", "MARK"} THEN {}
  ELSE IF pat.k = "V" THEN (IF IsUnk(pat.n) THEN {<<pat.n, act>>} ELSE {})
  ELSE IF pat.k = "W" THEN (IF pat.a = <<>> THEN {} ELSE IF act.k = "W" THEN (IF act.a = <<>> THEN {} ELSE Bindings(pat.a[1], act.a[1])) ELSE Bindings(pat.a[1], act))
  ELSE IF act.k = "W" THEN (IF act.a = <<>> THEN {} ELSE Bindings(pat, act.a[1]))
  ELSE IF act.k = "V" THEN (IF act.a = <<>> THEN {} ELSE Bindings(pat, act.a[1]))
  ELSE IF Kind(pat) = "C" /\ Kind(act) = "C" THEN
       (IF pat.n = act.n /\ Len(pat.a) = Len(act.a) THEN UNION {Bindings(pat.a[j], act.a[j]) : j \in DOMAIN pat.a}
        ELSE UNION {Bindings(pat, g) : g \in {g \in SupersT(act) : g.n = pat.n /\ g # act}})
  ELSE {}
RECURSIVE Assignable(_, _)
Resolve(Q, exp) ==
  LET c == CT[Q.n]  ps == c.tp
      self == Cls(Q.n, [j \in DOMAIN ps |-> Var(Unk(ps[j].n), <<>>)])
      um == [x \in {ps[j].n : j \in DOMAIN ps} |-> Var(Unk(x), <<>>)]
      fromExp == IF exp = <<>> THEN {} ELSE LET E == StripW(exp[1]) IN
                 IF Kind(E) # "C" THEN {} ELSE UNION {Bindings(g, E) : g \in {g \in SupersT(self) : g.n = E.n}}
      fromArgs == IF Len(c.fields) # Len(Q.a) THEN {} ELSE UNION {Bindings(Subst(c.fields[j].t, um), Settle(Q.a[j])) : j \in DOMAIN Q.a}
      sol(x) == LET be == {b \in fromExp : b[1] = Unk(x)}  ba == {b \in fromArgs : b[1] = Unk(x)} IN
                IF be # {} THEN <<(CHOOSE b \in be : TRUE)[2]>> ELSE IF ba # {} THEN <<(CHOOSE b \in ba : TRUE)[2]>> ELSE <<>>
      m1 == [x \in {ps[j].n : j \in {j \in DOMAIN ps : sol(ps[j].n) # <<>>}} |-> sol(x)[1]]
      sol2(j) == IF sol(ps[j].n) # <<>> THEN sol(ps[j].n)
                 ELSE IF ps[j].b # <<>> THEN <<Subst(ps[j].b[1], m1)>>          \* unconstrained: fixed to its (instantiated) declared bound
                 ELSE IF P.lang \in {"java", "groovy"} THEN <<TopT>> ELSE <<>>
      ms == [x \in {ps[j].n : j \in DOMAIN ps} |-> LET j == CHOOSE j \in DOMAIN ps : ps[j].n = x IN IF sol2(j) = <<>> THEN Bot ELSE sol2(j)[1]]
  IN [ok |-> \A j \in DOMAIN ps : sol2(j) # <<>>,
      \* the constructor arguments must fit the fields under the solution (it may come from the expected type alone)
      \* (an argument may itself be pending - a nested diamond gets its expected type from the field)
      argsOK |-> Len(c.fields) = Len(Q.a) => \A j \in DOMAIN Q.a : Assignable(Q.a[j], Subst(c.fields[j].t, ms)),
      t |-> Cls(Q.n, [j \in DOMAIN ps |-> IF sol2(j) = <<>> THEN Bot ELSE sol2(j)[1]]),
      src |-> [j \in DOMAIN ps |-> IF {b \in fromExp : b[1] = Unk(ps[j].n)} # {} THEN "exp" ELSE IF {b \in fromArgs : b[1] = Unk(ps[j].n)} # {} THEN "args" ELSE "none"]]
SetToSeqBy(S) == [q \in 1..Cardinality(S) |-> CHOOSE x \in S : Cardinality({y \in S : y < x}) = q - 1]
\* ---- inference of omitted type arguments of a generic call: pending type
\*      [k |-> "QF", n |-> function, a |-> <<return type template, type-parameter list as V terms (with bounds)>> \o <<param template, argument type, ...>>]
\* (templates mention the function's own type parameters as unknowns ?X).  Solved like Q: from the expected type first, then from
\* the arguments; an unconstrained parameter is its bound / the top type in Java and Groovy, Nothing in Scala, and an error in Kotlin.
ResolveF(Q, exp) ==
  LET retT == Q.a[1]  tps == Q.a[2].a
      pairs == {j \in 1..((Len(Q.a) - 2) \div 2) : TRUE}
      fromExp == IF exp = <<>> THEN {} ELSE LET E == StripW(exp[1]) IN
                 IF retT.k = "V" THEN Bindings(retT, E)
                 ELSE IF Kind(E) # "C" \/ Kind(retT) # "C" THEN {} ELSE UNION {Bindings(g, E) : g \in {g \in SupersT(retT) : g.n = E.n}}
      fromArgs == UNION {Bindings(Q.a[2 * j + 1], Settle(Q.a[2 * j + 2])) : j \in pairs}
      sol(x) == LET be == {b \in fromExp : b[1] = Unk(x)}  ba == {b \in fromArgs : b[1] = Unk(x)} IN
                IF be # {} THEN <<(CHOOSE b \in be : TRUE)[2]>> ELSE IF ba # {} THEN <<(CHOOSE b \in ba : TRUE)[2]>> ELSE <<>>
      m1 == [x \in {Unk(tps[j].n) : j \in {j \in DOMAIN tps : sol(tps[j].n) # <<>>}} |-> sol(CHOOSE y \in {tps[j].n : j \in DOMAIN tps} : Unk(y) = x)[1]]
      sol2(j) == IF sol(tps[j].n) # <<>> THEN sol(tps[j].n)
                 ELSE IF P.lang = "scala" THEN <<Bot>>
                 ELSE IF P.lang = "kotlin" THEN <<>>
                 ELSE IF tps[j].a # <<>> THEN <<Subst(tps[j].a[1], m1)>> ELSE <<TopT>>
      m2 == [x \in {Unk(tps[j].n) : j \in DOMAIN tps} |-> LET j == CHOOSE j \in DOMAIN tps : Unk(tps[j].n) = x IN IF sol2(j) = <<>> THEN Bot ELSE sol2(j)[1]]
  IN [ok |-> \A j \in DOMAIN tps : sol2(j) # <<>>, t |-> Subst(retT, m2),
      argsOK |-> \A j \in pairs : Assignable(Q.a[2 * j + 2], Subst(Q.a[2 * j + 1], m2))]
Assignable(S, T) ==
  IF S.k = "U" THEN Assignable(S.a[1], T) /\ Assignable(S.a[2], T)
  ELSE IF S.k = "Q" THEN (LET R == Resolve(S, <<T>>) IN R.ok /\ R.argsOK /\ Sub(R.t, StripW(T)))
  ELSE IF S.k = "QF" THEN (LET R == ResolveF(S, <<T>>) IN R.ok /\ R.argsOK /\ Sub(StripW(R.t), StripW(T)))
  ELSE Sub(StripW(S), StripW(T))
Settle(S) == IF S.k = "Q" THEN Resolve(S, <<>>).t ELSE IF S.k = "QF" THEN ResolveF(S, <<>>).t ELSE S     \* consumer without an expected type

\* ---------------------------------------------------------------- bounds of explicit type arguments
Plain(a) == IF a.k = "W" /\ a.a # <<>> THEN a.a[1] ELSE a
RECURSIVE HasVarNamed(_, _)
HasVarNamed(t, x) == (t.k = "V" /\ t.n = x) \/ \E j \in DOMAIN t.a : HasVarNamed(t.a[j], x)
RECURSIVE BadBounds(_)
BadBounds(T) ==   \* set of <<class, param>> whose argument violates the declared bound, anywhere inside T
  IF T.k \in {"W", "V"} THEN (IF T.a = <<>> THEN {} ELSE BadBounds(T.a[1]))
  ELSE IF Kind(T) # "C" \/ T.n \notin DOMAIN CT \/ Len(CT[T.n].tp) # Len(T.a) THEN {}
  ELSE LET ps == CT[T.n].tp
           pm == [x \in {ps[j].n : j \in DOMAIN ps} |-> Plain(T.a[CHOOSE j \in DOMAIN ps : ps[j].n = x])] IN
       {<<T.n, ps[j].n>> : j \in {j \in DOMAIN ps : /\ ps[j].b # <<>>
                                                      /\ ~(T.a[j].k = "W" /\ T.a[j].n \in {"in", "star"})
                                                      /\ ~Sub(Plain(T.a[j]), Subst(ps[j].b[1], pm))}}
       \cup UNION {BadBounds(T.a[j]) : j \in DOMAIN T.a}
\* known-finding shape: the violated bound is the bound of a parameter of a class with tied parameters (a bound mentioning a sibling)
TiedClass(c) == \E j \in DOMAIN CT[c].tp : CT[c].tp[j].b # <<>> /\ \E q \in DOMAIN CT[c].tp : HasVarNamed(CT[c].tp[j].b[1], CT[c].tp[q].n)
ChkB(T, x) == {<<p, i, "TypeArgWithinBound" \o (IF TiedClass(bb[1]) THEN "/DependentParam" ELSE ""), x \o ":" \o bb[1] \o "." \o bb[2], T, Bot>> : bb \in BadBounds(T)}

\* ---------------------------------------------------------------- members
This(c) == Cls(c, [j \in DOMAIN CT[c].tp |-> Var(CT[c].tp[j].n, CT[c].tp[j].b)])
Strip(T) == IF T.k \in {"V", "W"} /\ T.a # <<>> THEN T.a[1] ELSE IF T.k = "U" THEN T.a[3] ELSE IF T.k = "Q" THEN Resolve(T, <<>>).t ELSE IF T.k = "QF" THEN ResolveF(T, <<>>).t ELSE T

RECURSIVE FieldT(_, _)
FieldT(T0, f) ==
  LET T == Strip(T0) IN
  IF T.k \in {"V", "W"} /\ T.a # <<>> THEN FieldT(T, f)
  ELSE IF Kind(T) # "C" \/ T.n \notin DOMAIN CT THEN <<>>
  ELSE LET c == CT[T.n]  m == ParamMap(T)
           own == {j \in DOMAIN c.fields : c.fields[j].n = f}
           sups == {j \in DOMAIN c.sup : FieldT(Up(c.sup[j], m), f) # <<>>}
       IN IF own # {} THEN LET fd == c.fields[CHOOSE j \in own : TRUE] IN <<[t |-> Up(fd.t, m), dn |-> Down(fd.t, m), final |-> fd.final]>>
          ELSE IF sups # {} THEN FieldT(Up(c.sup[CHOOSE j \in sups : TRUE], m), f)
          ELSE <<>>

RECURSIVE FunOf(_, _)
FunOf(T0, f) ==
  LET T == Strip(T0) IN
  IF T.k \in {"V", "W"} /\ T.a # <<>> THEN FunOf(T, f)
  ELSE IF Kind(T) # "C" \/ T.n \notin DOMAIN CT THEN <<>>
  ELSE LET c == CT[T.n]  m == ParamMap(T)
           own == {j \in DOMAIN c.funs : c.funs[j].n = f}
           sups == {j \in DOMAIN c.sup : FunOf(Up(c.sup[j], m), f) # <<>>}
       IN IF own # {} THEN <<[f |-> c.funs[CHOOSE j \in own : TRUE], m |-> m]>>
          ELSE IF sups # {} THEN FunOf(Up(c.sup[CHOOSE j \in sups : TRUE], m), f)
          ELSE <<>>

RECURSIVE DefaultUp(_, _, _)
DefaultUp(T0, f, q) ==
  LET T == Strip(T0) IN
  IF Kind(T) # "C" \/ T.n \notin DOMAIN CT THEN FALSE
  ELSE LET c == CT[T.n]  m == ParamMap(T) IN
       \/ \E j \in DOMAIN c.funs : c.funs[j].n = f /\ q \in DOMAIN c.funs[j].params /\ c.funs[j].params[q].dflt
       \/ \E j \in DOMAIN c.sup : DefaultUp(Up(c.sup[j], m), f, q)

\* ---------------------------------------------------------------- inheritance obligations
RECURSIVE AncestorFuns(_)      \* set of [f, m, cls] for every function declared in a proper ancestor of class-type T (after substitution maps)
AncestorFuns(T) ==
  IF Kind(T) # "C" \/ T.n \notin DOMAIN CT THEN {}
  ELSE LET c == CT[T.n]  m == ParamMap(T) IN
       UNION {LET S == Up(c.sup[j], m) IN
              (IF Kind(S) = "C" /\ S.n \in DOMAIN CT
               THEN {[f |-> CT[S.n].funs[q], m |-> ParamMap(S), cls |-> S.n] : q \in DOMAIN CT[S.n].funs} ELSE {})
              \cup AncestorFuns(S) : j \in DOMAIN c.sup}
RenameTP(g, f) ==   \* map g's function type parameters to f's, positionally
  IF Len(g.tp) = Len(f.tp) THEN [x \in {g.tp[j].n : j \in DOMAIN g.tp} |-> LET j == CHOOSE j \in DOMAIN g.tp : g.tp[j].n = x IN Var(f.tp[j].n, f.tp[j].b)]
  ELSE EmptyMap
ClassViol(cname) ==
  LET c == CT[cname]  T == This(cname)  anc == AncestorFuns(T)
      own == {c.funs[q] : q \in DOMAIN c.funs}
      implNames == {f.n : f \in {f \in own : ~f.abstract}} \cup {a.f.n : a \in {a \in anc : ~a.f.abstract}}
      absNames == {a.f.n : a \in {a \in anc : a.f.abstract}}
  IN (IF c.kind = "regular" THEN {<<p, i, "AbstractImplemented", cname \o "." \o nme, Bot, Bot>> : nme \in absNames \ implNames} ELSE {})
     \cup (IF c.kind = "regular" THEN {<<p, i, "AbstractInRegular", cname \o "." \o f.n, Bot, Bot>> : f \in {f \in own : f.abstract}} ELSE {})
     \cup UNION {UNION {LET g == a.f  mm == [x \in (DOMAIN a.m) \cup (DOMAIN RenameTP(g, f)) |-> IF x \in DOMAIN RenameTP(g, f) THEN RenameTP(g, f)[x] ELSE a.m[x]] IN
                        (IF Len(g.params) # Len(f.params) THEN {<<p, i, "OverrideCompatible.arity", cname \o "." \o f.n, Bot, Bot>>}
                         ELSE UNION {IF SameT(StripW(f.params[q].t), StripW(Subst(g.params[q].t, mm))) THEN {}
                                     ELSE {<<p, i, "OverrideCompatible.param", cname \o "." \o f.n, f.params[q].t, Subst(g.params[q].t, mm)>>} : q \in DOMAIN f.params})
                        \cup (IF f.ret = <<>> \/ g.ret = <<>> \/ Assignable(f.ret[1], Subst(g.ret[1], mm)) THEN {} ELSE {<<p, i, "OverrideCompatible.ret", cname \o "." \o f.n, f.ret[1], Subst(g.ret[1], mm)>>})
                        \cup (IF g.final THEN {<<p, i, "OverrideCompatible.final", cname \o "." \o f.n, Bot, Bot>>} ELSE {})
                        : a \in {a \in anc : a.f.n = f.n}} : f \in own}

\* ---------------------------------------------------------------- scopes
SeqToMapVars(s) == [x \in {s[j].n : j \in DOMAIN s} |-> LET d == s[CHOOSE j \in DOMAIN s : s[j].n = x] IN [t |-> IF d.t = <<>> THEN Bot ELSE d.t[1], final |-> d.final, wide |-> Bot]]
SeqToMapFuns(s) == [x \in {s[j].n : j \in DOMAIN s} |-> s[CHOOSE j \in DOMAIN s : s[j].n = x]]
GlobalScope(pp) == [kind |-> "Global", cls |-> "", vs |-> SeqToMapVars(Progs[pp].g.vars), fs |-> SeqToMapFuns(Progs[pp].g.funs), tv |-> {}, open |-> ""]
NewScope(kind, cls) == [kind |-> kind, cls |-> cls, vs |-> [x \in {} |-> [t |-> Bot, final |-> TRUE, wide |-> Bot]], fs |-> [x \in {} |-> <<>>], tv |-> {}, open |-> ""]

HasVar(s, x) == x \in DOMAIN s.vs \/ (s.kind = "Class" /\ FieldT(This(s.cls), x) # <<>>)
VarIn(s, x) == IF x \in DOMAIN s.vs THEN s.vs[x] ELSE LET fd == FieldT(This(s.cls), x)[1] IN [t |-> fd.t, final |-> fd.final, wide |-> Bot]
LookupVar(x) == LET hits == {j \in DOMAIN scopes : HasVar(scopes[j], x)} IN
                IF hits = {} THEN <<>> ELSE <<VarIn(scopes[CHOOSE j \in hits : \A h \in hits : h <= j], x)>>
HasFun(s, x) == x \in DOMAIN s.fs \/ (s.kind = "Class" /\ FunOf(This(s.cls), x) # <<>>)
FunIn(s, x) == IF x \in DOMAIN s.fs THEN [f |-> s.fs[x], m |-> EmptyMap] ELSE FunOf(This(s.cls), x)[1]
LookupFun(x) == LET hits == {j \in DOMAIN scopes : HasFun(scopes[j], x)} IN
                IF hits = {} THEN <<>> ELSE <<FunIn(scopes[CHOOSE j \in hits : \A h \in hits : h <= j], x)>>

TopScope == scopes[Len(scopes)]
\* ---- C05, Java: a local variable used inside a lambda or a nested function (printed as a lambda) must be effectively final
CaptureIdx == LET cs == {j \in DOMAIN scopes : scopes[j].kind \in {"Lambda", "LocalFun"}} IN
              IF cs = {} THEN 0 ELSE CHOOSE j \in cs : \A h \in cs : h <= j
VarIdx(x) == LET hits == {j \in DOMAIN scopes : HasVar(scopes[j], x)} IN IF hits = {} THEN 0 ELSE CHOOSE j \in hits : \A h \in hits : h <= j
AssignedNames == {Ev[j].name : j \in {q \in DOMAIN Ev : Ev[q].ev = "Assign" /\ ~Ev[q].recv}}
CapturedLocal(x) == LET j == VarIdx(x) IN P.lang = "java" /\ j > 0 /\ j < CaptureIdx /\ scopes[j].kind \notin {"Global", "Class"}
ChkCapture(x, r) == IF r # <<>> /\ CapturedLocal(x) /\ ~r[1].final /\ x \in AssignedNames THEN {<<p, i, "CaptureFinal", x, Bot, Bot>>} ELSE {}
\* ---- C05: type variables in scope, fresh identifiers, reserved words
TVarsInScope == UNION {scopes[j].tv : j \in DOMAIN scopes}
RECURSIVE FreeTV(_)
FreeTV(t) == IF t.k = "V" THEN {t.n} ELSE UNION {FreeTV(t.a[j]) : j \in DOMAIN t.a}
ChkTV(T, x) == {<<p, i, "TypeVarsInScope", x \o ":" \o v, T, Bot>> : v \in FreeTV(T) \ TVarsInScope}
ChkTVs(tps, x) == UNION {IF tps[j].b = <<>> THEN {} ELSE {<<p, i, "TypeVarsInScope", x \o ":" \o v, tps[j].b[1], Bot>> : v \in FreeTV(tps[j].b[1]) \ (TVarsInScope \cup {tps[q].n : q \in DOMAIN tps})} : j \in DOMAIN tps}
\* hard keywords of the target languages (from the language specifications, not from src/resources)
Reserved(lang) ==
  CASE lang = "java" -> {"abstract", "assert", "boolean", "break", "byte", "case", "catch", "char", "class", "const", "continue", "default", "do", "double",
                         "else", "enum", "extends", "final", "finally", "float", "for", "goto", "if", "implements", "import", "instanceof", "int", "interface",
                         "long", "native", "new", "package", "private", "protected", "public", "return", "short", "static", "strictfp", "super", "switch",
                         "synchronized", "this", "throw", "throws", "transient", "try", "void", "volatile", "while", "true", "false", "null"}
    [] lang = "kotlin" -> {"as", "break", "class", "continue", "do", "else", "false", "for", "fun", "if", "in", "interface", "is", "null", "object", "package",
                           "return", "super", "this", "throw", "true", "try", "typealias", "typeof", "val", "var", "when", "while"}
    [] lang = "groovy" -> {"abstract", "as", "assert", "boolean", "break", "byte", "case", "catch", "char", "class", "const", "continue", "def", "default", "do",
                           "double", "else", "enum", "extends", "false", "final", "finally", "float", "for", "goto", "if", "implements", "import", "in",
                           "instanceof", "int", "interface", "long", "native", "new", "null", "package", "private", "protected", "public", "return", "short",
                           "static", "strictfp", "super", "switch", "synchronized", "this", "throw", "throws", "transient", "true", "try",
                           "void", "volatile", "while"}
    [] lang = "scala" -> {"abstract", "case", "catch", "class", "def", "do", "else", "enum", "export", "extends", "false", "final", "finally", "for", "given",
                          "if", "implicit", "import", "lazy", "match", "new", "null", "object", "override", "package", "private", "protected", "return",
                          "sealed", "super", "then", "throw", "trait", "true", "try", "type", "val", "var", "while", "with", "yield"}
    [] OTHER -> {}
ChkName(x) == IF x \in Reserved(P.lang) THEN {<<p, i, "NotReserved", x, Bot, Bot>>} ELSE {}
ChkFresh(x) == IF x \in DOMAIN TopScope.vs \/ x \in DOMAIN TopScope.fs THEN {<<p, i, "FreshInScope", x, Bot, Bot>>} ELSE {}
BindVar(x, t, fin) == [scopes EXCEPT ![Len(scopes)].vs = (x :> [t |-> t, final |-> fin, wide |-> Bot]) @@ @]
\* a variable whose omitted type was inferred narrower than the type it used to declare (wide = the removed type)
BindVarW(x, t, fin, w) == [scopes EXCEPT ![Len(scopes)].vs = (x :> [t |-> t, final |-> fin, wide |-> w]) @@ @]
PopScope == SubSeq(scopes, 1, Len(scopes) - 1)

\* ---------------------------------------------------------------- type stack
Peek(k) == ts[Len(ts) - k]            \* k = 0 is the top
Pop(n) == SubSeq(ts, 1, Len(ts) - n)
Push(s, t) == Append(s, t)
MarkPos == CHOOSE j \in DOMAIN ts : ts[j].k = "MARK" /\ \A h \in DOMAIN ts : (ts[h].k = "MARK") => h <= j
LastSinceMark == IF MarkPos = Len(ts) THEN UnitT ELSE ts[Len(ts)]
PopToMark == SubSeq(ts, 1, MarkPos - 1)

V(c, x) == {<<p, i, c, x, Bot, Bot>>}
\* known-finding shape for assignability violations: one of the two types mentions a class with a parameter whose bound
\* mentions another parameter of that class (class Dank<O, N, C : Function1<O, O>>); the generator picks "subtypes" of such
\* types with find_subtypes, which is known to return non-subtypes for them (C09, DependentParam)
RECURSIVE FreeVarsT(_)
FreeVarsT(t) == IF t.k = "V" THEN {t.n} ELSE UNION {FreeVarsT(t.a[j]) : j \in DOMAIN t.a}
RECURSIVE MentionsDependent(_)
MentionsDependent(t) ==
  \/ Kind(t) = "C" /\ t.n \in DOMAIN CT /\ \E j \in DOMAIN CT[t.n].tp : CT[t.n].tp[j].b # <<>> /\ FreeVarsT(CT[t.n].tp[j].b[1]) # {}
  \/ \E j \in DOMAIN t.a : MentionsDependent(t.a[j])
ShapeOf(S, T) == IF MentionsDependent(S) \/ MentionsDependent(T) THEN "/DependentParam" ELSE ""
ChkA(S, T, c, x) == IF Assignable(S, T) THEN {} ELSE {<<p, i, c \o ShapeOf(S, T), x, S, T>>}
Chk(cond, c, x) == IF cond THEN {} ELSE V(c, x)

\* expected parameter type for argument number j (1-based) of a call with the given argument names
ParamFor(fr, argnames, j) ==
  LET ps == fr.params IN
  IF argnames[j] # "" THEN (LET hit == {q \in DOMAIN ps : ps[q].n = argnames[j]} IN IF hit = {} THEN <<>> ELSE <<ps[CHOOSE q \in hit : TRUE]>>)
  ELSE IF j \in DOMAIN ps /\ ~ps[j].vararg THEN <<ps[j]>>
  ELSE IF ps # <<>> /\ ps[Len(ps)].vararg /\ j >= Len(ps) THEN <<[ps[Len(ps)] EXCEPT !.t = IF @.a # <<>> THEN @.a[1] ELSE @]>>
  ELSE <<>>
Covered(fr, argnames, T, hasT) ==
  \A q \in DOMAIN fr.params : LET pr == fr.params[q] IN
     pr.dflt \/ pr.vararg \/ (hasT /\ DefaultUp(T, fr.n, q)) \/ (q <= Len(argnames) /\ argnames[q] = "") \/ (\E j \in DOMAIN argnames : argnames[j] = pr.n)

FunMap(fr, m, targs) ==
  IF Len(fr.tp) = Len(targs) /\ targs # <<>>
  THEN [x \in (DOMAIN m) \cup {fr.tp[j].n : j \in DOMAIN fr.tp} |->
          IF x \in {fr.tp[j].n : j \in DOMAIN fr.tp} THEN StripW(targs[CHOOSE j \in DOMAIN fr.tp : fr.tp[j].n = x]) ELSE m[x]]
  ELSE m

ConstT(e) == IF e.t # <<>> THEN e.t[1]
             ELSE CASE e.lit = "int" -> Cls(NM.int, <<>>) [] e.lit = "bool" -> BoolT [] e.lit = "char" -> Cls(NM.char, <<>>)
                    [] e.lit = "string" -> Cls(NM.string, <<>>) [] OTHER -> Bot

Init == p = 1 /\ i = 1 /\ scopes = <<GlobalScope(1)>> /\ ts = <<>> /\ viol = {}

Step ==
  /\ i <= Len(Ev)
  /\ LET e == Ev[i] IN
     CASE e.ev = "Enter" ->
            /\ scopes' = Append(scopes,
                 IF e.kind = "Class" THEN [NewScope("Class", e.name) EXCEPT !.tv = {e.tps[j].n : j \in DOMAIN e.tps}]
                 ELSE IF e.kind = "Fun" THEN [NewScope(IF "owner" \in DOMAIN e /\ e.owner = "local" THEN "LocalFun" ELSE "Fun", "") EXCEPT !.tv = {e.tps[j].n : j \in DOMAIN e.tps},
                                                        \* a function whose return type is not written is "open" while its body is walked: its result type
                                                        \* is only known once the body is typed, so the body must not depend on it
                                                        !.open = IF "noret" \in DOMAIN e /\ e.noret THEN e.name ELSE ""]
                 ELSE IF e.kind = "True" /\ e.name # "" THEN [NewScope("True", "") EXCEPT !.vs = (e.name :> [t |-> e.t[1], final |-> TRUE, wide |-> Bot])]
                 ELSE NewScope(e.kind, ""))
            /\ ts' = IF e.kind \in {"Fun", "Lambda", "Block"} THEN Push(ts, Mark) ELSE ts
            /\ viol' = viol \cup (IF e.kind \in {"Fun", "Class"} THEN ChkName(e.name) \cup ChkTVs(e.tps, e.name) ELSE {})
                            \cup (IF e.kind = "Fun" /\ TopScope.kind \notin {"Class", "Global"} THEN ChkFresh(e.name) ELSE {})
       [] e.ev = "Exit" /\ e.kind \in {"True", "False"} ->
            /\ scopes' = PopScope /\ ts' = ts /\ viol' = viol
       [] e.ev = "Exit" /\ e.kind = "Class" ->
            /\ scopes' = PopScope /\ ts' = ts /\ viol' = viol \cup ClassViol(e.name)
       [] e.ev = "Exit" /\ e.kind = "Block" ->
            /\ scopes' = PopScope /\ ts' = Push(PopToMark, LastSinceMark) /\ viol' = viol
       [] e.ev = "Exit" /\ e.kind = "Fun" ->
            /\ LET outer == PopScope
                   local == outer[Len(outer)].kind \notin {"Class", "Global"} IN
               scopes' = IF local THEN [outer EXCEPT ![Len(outer)].fs = (e.name :> e.sig) @@ @] ELSE outer
            /\ ts' = PopToMark
            /\ viol' = viol \cup (IF e.body /\ e.ret # <<>> /\ ~IsUnit(e.ret[1]) THEN ChkA(LastSinceMark, e.ret[1], "ResultAssignable", e.name) ELSE {})
                            \cup (IF e.ret # <<>> THEN ChkB(e.ret[1], "ret") \cup ChkTV(e.ret[1], e.name) ELSE {})
       [] e.ev = "Exit" /\ e.kind = "Lambda" ->
            /\ scopes' = PopScope
            /\ ts' = Push(PopToMark, IF e.sig = <<>> THEN Bot ELSE e.sig[1])
            /\ viol' = viol \cup (IF e.ret # <<>> /\ ~IsUnit(e.ret[1]) THEN ChkA(LastSinceMark, e.ret[1], "ResultAssignable", "lambda") ELSE {})
       [] e.ev = "ParamDecl" ->
            /\ scopes' = BindVar(e.name, e.t, FALSE)
            /\ ts' = IF e.dflt THEN Pop(1) ELSE ts
            /\ viol' = viol \cup (IF e.dflt THEN ChkA(Peek(0), e.t, "ArgAssignable.Default", e.name) ELSE {}) \cup ChkB(e.t, "param")
                            \cup ChkTV(e.t, e.name) \cup ChkName(e.name) \cup ChkFresh(e.name)
       [] e.ev = "FieldDecl" ->
            /\ UNCHANGED <<scopes, ts>>
            /\ viol' = viol \cup ChkB(e.t, "field") \cup ChkTV(e.t, e.name) \cup ChkName(e.name)
       [] e.ev = "VarDecl" ->
            \* declared mode: the variable has its written (or recorded) type and the initializer must be assignable to it;
            \* inference mode and no written type: the variable gets the natural type of its initializer
            LET infer == Mode = "inference" /\ e.vt = <<>>
                rec   == IF e.vt # <<>> THEN e.vt[1] ELSE IF e.it # <<>> THEN e.it[1] ELSE Bot
                nat   == Settle(Peek(0))
                bound == IF infer /\ nat.k \notin {"N", "U"} THEN nat ELSE rec IN
            /\ scopes' = IF Len(scopes) = 1 THEN scopes
                         ELSE IF infer /\ ~SameT(StripW(bound), StripW(rec)) THEN BindVarW(e.name, bound, e.final, rec) ELSE BindVar(e.name, bound, e.final)
            /\ ts' = Pop(1)
            /\ viol' = viol \cup (IF infer THEN {} ELSE ChkA(Peek(0), rec, "InitAssignable", e.name)) \cup ChkB(rec, "var")
                            \cup ChkTV(rec, e.name) \cup ChkName(e.name)
                            \cup (IF Len(scopes) = 1 THEN {} ELSE ChkFresh(e.name))
                            \cup (IF infer /\ Peek(0).k = "Q" /\ ~Resolve(Peek(0), <<>>).ok THEN {<<p, i, "TypeArgsNotInferable", e.name, Peek(0), Bot>>} ELSE {})
                            \* known-finding shape BoundOnly: every type parameter of the call has a declared bound (the dependency analysis
                            \* counts the bound as a source for the type argument; javac infers the bound, kotlinc and scalac do not)
                            \cup (IF infer /\ Peek(0).k = "QF" /\ ~ResolveF(Peek(0), <<>>).ok
                                  THEN {<<p, i, "TypeArgsNotInferable.Call" \o (IF \A q \in DOMAIN Peek(0).a[2].a : Peek(0).a[2].a[q].a # <<>> THEN "/BoundOnly" ELSE ""),
                                          e.name, Peek(0).a[1], Bot>>} ELSE {})
                            \cup (IF infer /\ nat.k = "N" /\ Peek(0).k # "QF" THEN {<<p, i, "VarTypeNotInferable", e.name, Bot, rec>>} ELSE {})
       [] e.ev = "Const" -> /\ UNCHANGED <<scopes, viol>> /\ ts' = Push(ts, ConstT(e))
       [] e.ev = "Bottom" -> /\ UNCHANGED <<scopes, viol>> /\ ts' = Push(ts, IF e.t = <<>> THEN Bot ELSE StripW(e.t[1]))
       [] e.ev = "Var" ->
            LET r == LookupVar(e.name) IN
            /\ UNCHANGED scopes
            /\ ts' = Push(ts, IF r = <<>> THEN Bot ELSE r[1].t)
            /\ viol' = viol \cup Chk(r # <<>>, "Resolved.Var", e.name) \cup ChkCapture(e.name, r)
       [] e.ev = "Is" -> /\ UNCHANGED <<scopes, viol>> /\ ts' = Push(Pop(1), BoolT)
       [] e.ev = "BinOp" ->
            \* operands of a comparison come from one family of comparable built-ins (numbers with numbers, strings with strings, ...),
            \* those of a logical connective are Booleans; equality is not constrained here
            /\ UNCHANGED scopes /\ ts' = Push(Pop(2), BoolT)
            /\ viol' = viol \cup (IF e.kind = "ComparisonExpr" THEN Chk(Ops!ComparableOperands(P.lang, Peek(1), Peek(0)), "OperandsComparable", e.op)
                                   ELSE IF e.kind = "LogicalExpr" THEN Chk(Ops!BooleanOperands(P.lang, Peek(1), Peek(0)), "OperandsBoolean", e.op) ELSE {})
       [] e.ev = "Cond" ->
            \* the natural type of a conditional is the pair of its branch types (both must fit wherever the conditional is used);
            \* the recorded type is kept for the places that need a single type (receivers)
            LET ct == IF e.t = <<>> THEN TopT ELSE e.t[1] IN
            /\ UNCHANGED scopes
            /\ ts' = Push(Pop(3), IF Assignable(Peek(1), ct) /\ Assignable(Peek(0), ct) THEN ct
                                   ELSE [k |-> "U", n |-> "", a |-> <<Peek(1), Peek(0), ct>>])
            /\ viol' = viol \cup (IF Assignable(Peek(1), ct) /\ Assignable(Peek(0), ct) THEN {} ELSE {<<p, i, "INFO.CondTypeNotUpperBound", "", Peek(1), ct>>})
       [] e.ev = "Array" ->
            /\ UNCHANGED scopes
            /\ ts' = Push(Pop(e.nk), e.t)
            /\ viol' = viol \cup UNION {(IF e.t.a = <<>> THEN {} ELSE ChkA(Peek(e.nk - j), e.t.a[1], "ArgAssignable.ArrayElem", "")) : j \in 1..e.nk}
       [] e.ev = "New" ->
            LET known == Kind(e.t) = "C" /\ e.t.n \in DOMAIN CT
                fields == IF known THEN CT[e.t.n].fields ELSE <<>>
                m == IF known THEN ParamMap(e.t) ELSE EmptyMap IN
            /\ UNCHANGED scopes
            /\ ts' = Push(Pop(e.nk), IF e.infer /\ known THEN [k |-> "Q", n |-> e.t.n, a |-> [j \in 1..e.nk |-> Peek(e.nk - j)]] ELSE e.t)
            /\ viol' = viol \cup Chk(known, "Resolved.Class", e.t.n) \cup ChkB(e.t, "new") \cup ChkTV(e.t, "new")
                            \cup (IF known THEN Chk(CT[e.t.n].kind \in {"regular", "builtin"}, "InstantiatedConcrete", e.t.n) ELSE {})
                            \cup (IF known /\ CT[e.t.n].kind # "builtin" THEN Chk(Len(fields) = e.nk, "ArityAdmitted.New", e.t.n) ELSE {})
                            \cup (IF known /\ Len(fields) = e.nk
                                  THEN UNION {ChkA(Peek(e.nk - j), Down(fields[j].t, m), "ArgAssignable.New", e.t.n \o "." \o fields[j].n) : j \in 1..e.nk}
                                  ELSE {})
       [] e.ev = "Super" ->
            LET known == Kind(e.t) = "C" /\ e.t.n \in DOMAIN CT
                fields == IF known THEN CT[e.t.n].fields ELSE <<>>
                m == IF known THEN ParamMap(e.t) ELSE EmptyMap IN
            /\ UNCHANGED scopes
            /\ ts' = Pop(e.nk)
            /\ viol' = viol \cup Chk(known, "Resolved.Class", e.t.n) \cup ChkB(e.t, "super") \cup ChkTV(e.t, "super")
                            \cup (IF known THEN Chk(~CT[e.t.n].final, "NoFinalSuper", e.t.n) ELSE {})
                            \cup (IF known /\ ~e.noargs /\ Len(fields) = e.nk
                                  THEN UNION {ChkA(Peek(e.nk - j), Down(fields[j].t, m), "ArgAssignable.Super", e.t.n \o "." \o fields[j].n) : j \in 1..e.nk}
                                  ELSE {})
                            \cup (IF known /\ ~e.noargs THEN Chk(Len(fields) = e.nk, "ArityAdmitted.Super", e.t.n) ELSE {})
       [] e.ev = "Field" ->
            LET r == FieldT(Peek(0), e.name) IN
            /\ UNCHANGED scopes
            /\ ts' = Push(Pop(1), IF r = <<>> THEN Bot ELSE r[1].t)
            /\ viol' = viol \cup Chk(r # <<>> \/ Peek(0).k = "N", "Resolved.Field", e.name)
       [] e.ev = "Call" /\ ~e.ref ->
            LET nrecv == IF e.recv THEN 1 ELSE 0
                r == IF e.recv THEN FunOf(Peek(e.nk), e.name) ELSE LookupFun(e.name)
                botrecv == e.recv /\ Peek(e.nk).k = "N" IN
            /\ UNCHANGED scopes
            /\ IF r = <<>> THEN /\ ts' = Push(Pop(e.nk + nrecv), Bot)
                                /\ viol' = viol \cup Chk(botrecv, "Resolved.Fun", e.name)
               ELSE LET fr == r[1].f  m == FunMap(fr, r[1].m, e.targs) IN
                    /\ ts' = Push(Pop(e.nk + nrecv),
                                  IF fr.ret = <<>> THEN Bot
                                  ELSE IF Mode = "inference" /\ e.infer /\ fr.tp # <<>> /\ Len(fr.tp) = Len(e.targs)
                                  THEN LET um == [x \in (DOMAIN r[1].m) \cup {fr.tp[j].n : j \in DOMAIN fr.tp} |->
                                                    IF x \in {fr.tp[j].n : j \in DOMAIN fr.tp} THEN Var(Unk(x), <<>>) ELSE r[1].m[x]]
                                           given == {j \in 1..e.nk : ParamFor(fr, e.argnames, j) # <<>>}
                                           gs == SetToSeqBy(given) IN
                                       [k |-> "QF", n |-> e.name,
                                        a |-> <<Up(fr.ret[1], um), Cls("", [j \in DOMAIN fr.tp |-> Var(fr.tp[j].n, IF fr.tp[j].b = <<>> THEN <<>> ELSE <<Up(fr.tp[j].b[1], um)>>)])>>
                                              \o [q \in 1..(2 * Len(gs)) |-> IF q % 2 = 1 THEN Up(ParamFor(fr, e.argnames, gs[(q + 1) \div 2])[1].t, um)
                                                                                ELSE Peek(e.nk - gs[q \div 2])]]
                                  ELSE Up(fr.ret[1], m))
                    /\ viol' = viol \cup Chk(Covered(fr, e.argnames, IF e.recv THEN Peek(e.nk) ELSE Bot, e.recv), "ArityAdmitted.Call", e.name)
                                    \* inference mode: a call (also through a receiver) of a function that is being defined without a written return type
                                    \* needs the very type that is to be inferred from this body
                                    \cup (IF Mode = "inference" /\ fr.declared_ret = <<>> /\ \E j \in DOMAIN scopes : scopes[j].open = e.name
                                          THEN {<<p, i, "ReturnNotInferable.Recursive", e.name, Bot, Bot>>} ELSE {})
                                    \cup Chk(Len(fr.tp) = Len(e.targs), "ArityAdmitted.TypeArgs", e.name)
                                    \cup (IF Len(fr.tp) = Len(e.targs)
                                          THEN UNION {IF fr.tp[j].b # <<>> /\ ~(e.targs[j].k = "W" /\ e.targs[j].n \in {"in", "star"})
                                                      THEN ChkA(Plain(e.targs[j]), Up(fr.tp[j].b[1], m), "TypeArgWithinBound.Call", e.name \o "." \o fr.tp[j].n)
                                                      ELSE {} : j \in DOMAIN fr.tp}
                                          ELSE {})
                                    \cup UNION {ChkB(e.targs[j], "targ") \cup ChkTV(e.targs[j], "targ") : j \in DOMAIN e.targs}
                                    \cup UNION {LET pf == ParamFor(fr, e.argnames, j) IN
                                                IF pf = <<>> THEN V("ArityAdmitted.Call", e.name)
                                                ELSE ChkA(Peek(e.nk - j), Down(pf[1].t, m), "ArgAssignable.Call", e.name \o "." \o pf[1].n)
                                                : j \in 1..e.nk}
       [] e.ev = "Call" /\ e.ref ->
            LET nrecv == IF e.recv THEN 1 ELSE 0
                r == IF e.recv THEN (LET fd == FieldT(Peek(e.nk), e.name) IN IF fd = <<>> THEN <<>> ELSE <<fd[1].t>>)
                     ELSE (LET lv == LookupVar(e.name) IN IF lv = <<>> THEN <<>> ELSE <<lv[1].t>>)
                ft == IF r = <<>> THEN Bot ELSE Strip(r[1]) IN
            /\ UNCHANGED scopes
            /\ ts' = Push(Pop(e.nk + nrecv), IF ft.a = <<>> THEN Bot ELSE StripW(ft.a[Len(ft.a)]))
            /\ viol' = viol \cup Chk(r # <<>>, "Resolved.RefCallee", e.name)
                            \cup (IF r # <<>> THEN Chk(Len(ft.a) = e.nk + 1, "ArityAdmitted.RefCall", e.name) ELSE {})
                            \cup (IF r # <<>> /\ Len(ft.a) = e.nk + 1
                                  THEN UNION {LET A == ft.a[j] IN
                                              Chk(IF A.k = "W" THEN (IF A.n = "in" THEN Assignable(Peek(e.nk - j), A.a[1]) ELSE Peek(e.nk - j).k = "N")
                                                  ELSE Assignable(Peek(e.nk - j), A), "ArgAssignable.RefCall", e.name) : j \in 1..e.nk}
                                  ELSE {})
       [] e.ev = "FuncRef" ->
            /\ UNCHANGED <<scopes, viol>>
            /\ ts' = Push(Pop(IF e.recv THEN 1 ELSE 0), IF e.sig = <<>> THEN Bot ELSE e.sig[1])
       [] e.ev = "Assign" ->
            LET nrecv == IF e.recv THEN 1 ELSE 0
                r == IF e.recv THEN (LET fd == FieldT(Peek(1), e.name) IN IF fd = <<>> THEN <<>> ELSE <<[t |-> fd[1].dn, final |-> fd[1].final, wide |-> Bot]>>)
                     ELSE LookupVar(e.name) IN
            /\ UNCHANGED scopes
            /\ ts' = Push(Pop(1 + nrecv), UnitT)
            /\ viol' = viol \cup Chk(r # <<>> \/ (e.recv /\ Peek(1).k = "N"), "Resolved.AssignTarget", e.name)
                            \cup (IF ~e.recv /\ r # <<>> /\ CapturedLocal(e.name) THEN {<<p, i, "CaptureFinal", e.name, Bot, Bot>>} ELSE {})
                            \cup (IF r # <<>> THEN Chk(~r[1].final, "AssignTargetNonFinal", e.name)
                                                   \cup ChkA(Peek(0), r[1].t,
                                                            \* known-finding shape: the target's type was erased and inferred narrower than declared,
                                                            \* and the assigned value fits the removed type only
                                                            IF r[1].wide # Bot /\ Assignable(Peek(0), r[1].wide) THEN "AssignAssignable.NarrowedByErasure"
                                                            ELSE "AssignAssignable", e.name) ELSE {})
       [] e.ev = "Drop" -> UNCHANGED <<scopes, viol>> /\ ts' = IF ts = <<>> THEN ts ELSE Pop(1)     \* (selftests: a removed declaration)
       [] OTHER -> /\ UNCHANGED <<scopes, ts>> /\ viol' = viol \cup V("UnknownEvent", e.ev)
  /\ i' = i + 1 /\ p' = p
NextProg ==
  /\ i > Len(Ev) /\ p < Len(Progs)
  /\ p' = p + 1 /\ i' = 1 /\ scopes' = <<GlobalScope(p + 1)>> /\ ts' = <<>> /\ viol' = {}
Next == Step \/ NextProg
Spec == Init /\ [][Next]_vars
\* one line per program: its violations (the walk of a program starts with viol = {})
Done == (i > Len(Ev)) => PrintT(ToJson([prog |-> P.id, events |-> Len(Ev), stackok |-> Len(scopes) = 1 /\ Len(ts) = 0, viol |-> viol]))
StackOK == i > Len(Ev) => Len(scopes) = 1
=============================================================================
