------------------------------ MODULE HTranslate ------------------------------
\* Translator objects and programs (property C11): translation is a pure function of (language, package, options,
\* program) and leaves the program untouched - whatever the same translator object translated before.
\* Translator objects: "A" - one reused object of the program's language; "B" - one reused object of another language;
\* "F" - a fresh object of the program's language for every call.  Programs: p generated, e = erased p, w = overwritten e,
\* q another generated program (generated under wider limits: functions with up to five parameters).  Text and Snap are what was observed (opaque digests).
EXTENDS Naturals, Sequences, FiniteSets, TLC, Json

CONSTANT MaxLen
Translators == {"A", "B", "F"}
Programs == {"p", "e", "w", "q"}
Lang(tr) == IF tr = "B" THEN "other" ELSE "own"
\* A program object may also be mutated *in place* between translations (the driver's pipeline applies the mutations to the
\* same object): ver[prog] counts these mutations (1st: type erasure, 2nd: type overwriting); a new version is a new program.

\* The driver re-targets a live translator (`translator.package = ...` for the incorrect program of an iteration):
\* pkg[tr] is the package a reused translator object currently carries; a fresh object is constructed with A's current one.
Packages == {"x", "y"}
VARIABLES hist,      \* the calls so far
          text,      \* Key |-> the text observed for it first
          ver,       \* program |-> number of in-place mutations so far
          pkg,       \* reused translator object |-> its current package
          done
PkgOf(tr) == IF tr = "F" THEN pkg["A"] ELSE pkg[tr]
Key(tr, prog) == <<Lang(tr), PkgOf(tr), prog, ver[prog]>>          \* options are fixed per run
Init == hist = <<>> /\ text = [k \in {} |-> ""] /\ ver = [q \in Programs |-> 0] /\ pkg = [tr \in {"A", "B"} |-> "x"] /\ done = FALSE

\* Translate(tr, prog) observing text digest d (d = "" : the call raised) and program snapshots before / after
Translate(tr, prog, d) ==
  /\ hist' = Append(hist, [op |-> "tr", tr |-> tr, prog |-> prog])
  /\ text' = IF d # "" /\ Key(tr, prog) \notin DOMAIN text
             THEN [k \in DOMAIN text \cup {Key(tr, prog)} |-> IF k = Key(tr, prog) THEN d ELSE text[k]] ELSE text
  /\ UNCHANGED <<done, ver, pkg>>
SetPackage(tr, pk) ==
  /\ tr \in {"A", "B"} /\ pkg[tr] # pk
  /\ hist' = Append(hist, [op |-> "pkg", tr |-> tr, prog |-> pk])
  /\ pkg' = [pkg EXCEPT ![tr] = pk]
  /\ UNCHANGED <<text, ver, done>>
MutateInPlace(prog) ==
  /\ ver[prog] < 2
  /\ hist' = Append(hist, [op |-> "mut", tr |-> "-", prog |-> prog])
  /\ ver' = [ver EXCEPT ![prog] = @ + 1]
  /\ UNCHANGED <<text, done, pkg>>
\* the property, per call
Functional(tr, prog, d) == (d # "" /\ Key(tr, prog) \in DOMAIN text) => text[Key(tr, prog)] = d
ProgUnchanged(before, after) == before = after

\* ---- G: call histories (exhaustive up to MaxLen, or random with -simulate) -----------------------------------------------
Finish == /\ Len(hist) >= 1 /\ ~done /\ done' = TRUE /\ UNCHANGED <<hist, text, ver, pkg>> /\ PrintT(ToJson(hist))
GNext == \/ /\ Len(hist) < MaxLen /\ ~done
            /\ \/ \E tr \in Translators, prog \in Programs : Translate(tr, prog, "x")
               \/ \E prog \in {"p", "q"} : MutateInPlace(prog)
               \/ \E tr \in {"A", "B"}, pk \in Packages : SetPackage(tr, pk)
         \/ Finish
GNextSim == \/ /\ Len(hist) < MaxLen /\ ~done
               /\ \/ \E tr \in Translators, prog \in Programs : Translate(tr, prog, "x")
                  \/ \E prog \in {"p", "q"} : MutateInPlace(prog)
                  \/ \E tr \in {"A", "B"}, pk \in Packages : SetPackage(tr, pk)
            \/ (Len(hist) = MaxLen /\ Finish)
=============================================================================
