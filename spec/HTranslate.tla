------------------------------ MODULE HTranslate ------------------------------
\* Translator objects and programs (property C11): translation is a pure function of (language, package, options,
\* program) and leaves the program untouched - whatever the same translator object translated before.
\* Translator objects: "A" - one reused object of the program's language; "B" - one reused object of another language;
\* "F" - a fresh object of the program's language for every call.  Programs: p generated, e = erased p, w = overwritten e,
\* q another generated program.  Text and Snap are what was observed (opaque digests).
EXTENDS Naturals, Sequences, FiniteSets, TLC, Json

CONSTANT MaxLen
Translators == {"A", "B", "F"}
Programs == {"p", "e", "w", "q"}
Lang(tr) == IF tr = "B" THEN "other" ELSE "own"
\* A program object may also be mutated *in place* between translations (the driver's pipeline applies the mutations to the
\* same object): ver[prog] counts these mutations (1st: type erasure, 2nd: type overwriting); a new version is a new program.

VARIABLES hist,      \* the calls so far
          text,      \* Key |-> the text observed for it first
          ver,       \* program |-> number of in-place mutations so far
          done
Key(tr, prog) == <<Lang(tr), prog, ver[prog]>>          \* package and options are fixed per run
Init == hist = <<>> /\ text = [k \in {} |-> ""] /\ ver = [q \in Programs |-> 0] /\ done = FALSE

\* Translate(tr, prog) observing text digest d (d = "" : the call raised) and program snapshots before / after
Translate(tr, prog, d) ==
  /\ hist' = Append(hist, [op |-> "tr", tr |-> tr, prog |-> prog])
  /\ text' = IF d # "" /\ Key(tr, prog) \notin DOMAIN text
             THEN [k \in DOMAIN text \cup {Key(tr, prog)} |-> IF k = Key(tr, prog) THEN d ELSE text[k]] ELSE text
  /\ UNCHANGED <<done, ver>>
MutateInPlace(prog) ==
  /\ ver[prog] < 2
  /\ hist' = Append(hist, [op |-> "mut", tr |-> "-", prog |-> prog])
  /\ ver' = [ver EXCEPT ![prog] = @ + 1]
  /\ UNCHANGED <<text, done>>
\* the property, per call
Functional(tr, prog, d) == (d # "" /\ Key(tr, prog) \in DOMAIN text) => text[Key(tr, prog)] = d
ProgUnchanged(before, after) == before = after

\* ---- G: call histories (exhaustive up to MaxLen, or random with -simulate) -----------------------------------------------
Finish == /\ Len(hist) >= 1 /\ ~done /\ done' = TRUE /\ UNCHANGED <<hist, text, ver>> /\ PrintT(ToJson(hist))
GNext == \/ /\ Len(hist) < MaxLen /\ ~done
            /\ \/ \E tr \in Translators, prog \in Programs : Translate(tr, prog, "x")
               \/ \E prog \in {"p", "q"} : MutateInPlace(prog)
         \/ Finish
GNextSim == \/ /\ Len(hist) < MaxLen /\ ~done
               /\ \/ \E tr \in Translators, prog \in Programs : Translate(tr, prog, "x")
                  \/ \E prog \in {"p", "q"} : MutateInPlace(prog)
            \/ (Len(hist) = MaxLen /\ Finish)
=============================================================================
