--------------------------- MODULE HContextTrace ---------------------------
\* V step of C16: each recorded history of real Context operations is replayed as a behaviour of HContext
\* (one state per operation) and every recorded query result is compared with the model's answer.
EXTENDS HContext, TLC, Json, IOUtils

Cases == JsonDeserialize(IOEnv.TRACE_FILE).cases
NS_All == {<<"g">>, <<"g", "f">>, <<"g", "f", "b">>, <<"g", "C">>, <<"g", "C", "m">>, <<"g", "C", "m", "b">>}
VARIABLES t, l
TInit == t \in DOMAIN Cases /\ l = 0 /\ Init
TNext == /\ l < Len(Cases[t].ops) /\ l' = l + 1 /\ t' = t
         /\ LET o == Cases[t].ops[l + 1] IN
            IF o.op = "add" THEN ctx' = CtxAfterAdd(ctx, o.ns, o.k, o.n, o.v) /\ rev' = RevAfterAdd(rev, o.ns, o.v)
            ELSE ctx' = CtxAfterRemove(ctx, o.ns, o.k, o.n) /\ rev' = RevAfterRemove(ctx, rev, o.ns, o.k, o.n)

ToSet(s) == {s[j] : j \in DOMAIN s}
\* failing clauses of the observation recorded after step l (empty record = nothing recorded at this step)
Bad(ob) ==
  {cl \in {"lookup", "current", "enclosing", "glob", "rev", "children", "nsdecls", "getdecl"} :
    CASE cl = "lookup"    -> \E x \in ToSet(ob.lookup) : x[4] # LookupLimit(ctx, x[1], x[2], x[3])
      [] cl = "current"   -> \E x \in ToSet(ob.cur) : x[3] # Current(ctx, x[1], x[2])
      [] cl = "enclosing" -> \E x \in ToSet(ob.enc) : x[3] # Enclosing(ctx, x[1], x[2])
      [] cl = "glob"      -> \E x \in ToSet(ob.glob) : ~GlobOK(ctx, <<"g">>, x[1], x[2])
      [] cl = "rev"       -> \E x \in ToSet(ob.rev) : x[2] # Rev(rev, x[1])
      [] cl = "children"  -> \E x \in ToSet(ob.children) : ToSet(x[2]) # Children(ctx, x[1]) \/ Len(x[2]) # Cardinality(Children(ctx, x[1]))
      [] cl = "nsdecls"   -> \E x \in ToSet(ob.nsdecls) : ToSet(x[3]) # NamespacesDecls(ctx, <<"g">>, x[1], x[2])
      [] cl = "getdecl"   -> \E x \in ToSet(ob.getdecl) : x[3] # (IF Has(ctx[x[1]]["decls"], x[2]) THEN <<Get(ctx[x[1]]["decls"], x[2])>> ELSE <<>>)}
Report == l = 0 \/ LET ob == Cases[t].obs[l] IN
          \/ DOMAIN ob = {}
          \/ Bad(ob) = {}
          \/ PrintT(ToJson([case |-> Cases[t].id, step |-> l, bad |-> Bad(ob)]))
\* every operation of every case was consumed
Done == l = Len(Cases[t].ops) => TLCSet(1, TLCGet(1) + 1)
=============================================================================
