---------------------------- MODULE HTranslateTrace ----------------------------
\* V step of C11: recorded translation histories replayed as behaviours of HTranslate.
EXTENDS HTranslate, IOUtils
Cases == JsonDeserialize(IOEnv.TRACE_FILE).cases
VARIABLES t, l, bad
TInit == Init /\ t \in DOMAIN Cases /\ l = 0 /\ bad = {}
TNext == /\ l < Len(Cases[t].steps) /\ l' = l + 1 /\ t' = t
         /\ LET s == Cases[t].steps[l + 1] IN
            IF s.op = "mut"
            THEN MutateInPlace(s.prog) /\ bad' = bad \cup (IF s.text = "" THEN {<<l + 1, "NoException">>} ELSE {})
            ELSE /\ Translate(s.tr, s.prog, s.text)
                 /\ bad' = bad \cup (IF ~Functional(s.tr, s.prog, s.text) THEN {<<l + 1, "Functional">>} ELSE {})
                               \cup (IF ~ProgUnchanged(s.before, s.after) THEN {<<l + 1, "ProgramUnchanged">>} ELSE {})
                               \cup (IF s.text = "" /\ s.tr # "B" THEN {<<l + 1, "NoException">>} ELSE {})
AtEnd == (l = Len(Cases[t].steps) /\ bad # {}) => PrintT(ToJson([case |-> Cases[t].id, bad |-> bad]))
=============================================================================
