---------------------------- MODULE HTranslateTrace ----------------------------
\* V step of C11: recorded translation histories replayed as behaviours of HTranslate.
EXTENDS HTranslate, IOUtils
Cases == JsonDeserialize(IOEnv.TRACE_FILE).cases
VARIABLES t, l, bad
\* `pre`: the texts of the unmutated programs obtained at the start of the process, before any history ran (fresh translator per
\* text): the function every later call of the process must agree with - state leaked across histories (module-level) is seen too.
Pre(cs) == [k \in {<<cs.pre[j].lang, cs.pre[j].pkg, cs.pre[j].prog, 0>> : j \in DOMAIN cs.pre} |->
              cs.pre[CHOOSE j \in DOMAIN cs.pre : <<cs.pre[j].lang, cs.pre[j].pkg, cs.pre[j].prog, 0>> = k].text]
TInit == Init /\ t \in DOMAIN Cases /\ l = 0 /\ bad = {}
TInit2 == /\ t \in DOMAIN Cases /\ l = 0 /\ bad = {} /\ hist = <<>> /\ ver = [q \in Programs |-> 0] /\ pkg = [tr \in {"A", "B"} |-> "x"] /\ done = FALSE
          /\ text = Pre(Cases[t])
TNext == /\ l < Len(Cases[t].steps) /\ l' = l + 1 /\ t' = t
         /\ LET s == Cases[t].steps[l + 1] IN
            IF s.op = "mut"
            THEN MutateInPlace(s.prog) /\ bad' = bad \cup (IF s.text = "" THEN {<<l + 1, "NoException">>} ELSE {})
            ELSE IF s.op = "pkg" THEN SetPackage(s.tr, s.prog) /\ bad' = bad
            ELSE /\ Translate(s.tr, s.prog, s.text)
                 /\ bad' = bad \cup (IF ~Functional(s.tr, s.prog, s.text) THEN {<<l + 1, "Functional">>} ELSE {})
                               \cup (IF ~ProgUnchanged(s.before, s.after) THEN {<<l + 1, "ProgramUnchanged">>} ELSE {})
                               \cup (IF s.text = "" /\ s.tr # "B" THEN {<<l + 1, "NoException">>} ELSE {})
AtEnd == (l = Len(Cases[t].steps) /\ bad # {}) => PrintT(ToJson([case |-> Cases[t].id, bad |-> bad]))
=============================================================================
