------------------------------ MODULE HGenerator ------------------------------
\* The generator's control skeleton as a *path model* of its call tree (property C18, and the leaf rule that C01/C05 rely on).
\* State: the generate_expr call being expanded - depth counter d, only_leaves, exclude_var, void-typed - or the routine it
\* chose.  Every routine lists the sub-calls of generate_expr it may make, each with the depth increment read off the code
\* (and confirmed edge by edge against the running generator by HGeneratorTrace).  Branching is finite, so termination of every
\* path is termination of generation.
\*
\* Two kinds of edges cost nothing and escape the leaf rule (finding F17): receivers of calls / function references are generated
\* before the depth counter is incremented, and a void expression may always be a call or an assignment, whatever the depth.
\* With ZeroCostLinks = FALSE these edges are cut after MaxLinks uses on a path (what a run observes as "links"); with TRUE TLC
\* finds the lasso.
EXTENDS Naturals, TLC
CONSTANTS MaxDepth,        \* cfg.limits.max_depth
          ZeroCostLinks,   \* model the unbounded links faithfully
          MaxLinks         \* otherwise: at most this many zero-cost links on a path

Leaves == {"gen_new", "gen_variable", "gen_array_expr", "constant"}
NonLeaves == {"gen_field_access", "gen_conditional", "gen_is_expr", "gen_func_call", "gen_logical_expr", "gen_equality_expr", "gen_comparison_expr"}
VoidRoutines == {"gen_func_call", "gen_assignment"}
Routines == Leaves \cup NonLeaves \cup VoidRoutines \cup {"gen_variable_decl"}

\* the leaf rule: which routines a generate_expr call with these flags may choose
MayChoose(r, d, ol, xv, void) ==
  IF void THEN r \in VoidRoutines
  ELSE IF d >= MaxDepth \/ ol THEN r \in Leaves /\ (r = "gen_variable" => ~ol /\ ~xv)
  ELSE r \in Leaves \cup NonLeaves         \* (above the leaf threshold gen_variable is a candidate even with exclude_var set)

\* sub-calls of generate_expr made (directly or through helper routines) by a routine:  <<depth increment, only_leaves', exclude_var', void', zero-cost link?>>
\* (ol = the only_leaves flag of the calling generate_expr)
Sub(r, ol) ==
  CASE r = "gen_new"            -> {<<1, ol, FALSE, FALSE, FALSE>>, <<1, TRUE, FALSE, FALSE, FALSE>>}
    [] r = "gen_variable"       -> {<<0, ol, TRUE, FALSE, TRUE>>}                \* falls back to a fresh expression at the same depth; above the
                                                                                 \* leaf threshold this may choose gen_variable again (zero-cost link)
    [] r = "gen_array_expr"     -> {<<0, ol, FALSE, FALSE, FALSE>>, <<0, TRUE, FALSE, FALSE, FALSE>>}      \* bounded by the nesting of the array type
    [] r = "gen_field_access"   -> {<<1, ol, FALSE, FALSE, FALSE>>}
    [] r = "gen_conditional"    -> {<<3, ol, FALSE, FALSE, FALSE>>}
    [] r = "gen_is_expr"        -> {<<0, TRUE, FALSE, FALSE, FALSE>>}
    [] r \in {"gen_logical_expr", "gen_equality_expr", "gen_comparison_expr"} -> {<<1, ol, FALSE, FALSE, FALSE>>}
    [] r = "gen_func_call"      -> {<<1, ol, FALSE, FALSE, FALSE>>,              \* arguments
                                    <<0, ol, FALSE, FALSE, TRUE>>,               \* the receiver: same depth (zero-cost link)
                                    <<0, TRUE, FALSE, FALSE, FALSE>>,            \* default values of a new function's parameters
                                    <<0, FALSE, FALSE, FALSE, TRUE>>,            \* the body of a function created for the call
                                    <<0, FALSE, FALSE, TRUE, TRUE>>}             \* side effects in that body
    [] r = "gen_assignment"     -> {<<0, ol, FALSE, FALSE, TRUE>>, <<1, ol, FALSE, FALSE, FALSE>>}
    [] r = "gen_variable_decl"  -> {<<1, ol, FALSE, FALSE, FALSE>>}
    [] OTHER -> {}

\* ---- the edge table: which generate_expr sub-calls each routine of the code makes (caller = the routine whose frame encloses
\* the call), with the depth increment.  This is what the running generator is checked against, edge by edge.
Deltas(caller) ==
  CASE caller \in {"_gen_func_body", "_gen_side_effects", "_gen_func_params_with_default", "_gen_func_ref", "gen_array_expr",
                   "gen_is_expr", "gen_variable"} -> {0}
    [] caller = "_gen_func_call" -> {0, 1}            \* 0: the receiver (zero-cost link), 1: the arguments
    [] caller = "gen_assignment" -> {0, 1}
    [] caller = "gen_conditional" -> {3}
    [] caller \in {"gen_new", "gen_field_access", "gen_logical_expr", "gen_equality_expr", "gen_comparison_expr", "gen_variable_decl",
                   "gen_class_decl", "generate_main_func", "_gen_func_call_ref", "gen_field_decl", "gen_func_decl", "gen_lambda",
                   "_gen_func_ref_lambda", "gen_func_ref", "gen_param_decl", "_gen_func_from_existing"} -> {1}
    [] OTHER -> {}
EdgeOK(caller, delta, ol2, xv2, void2) ==
  /\ delta \in Deltas(caller)
  /\ (xv2 <=> caller = "gen_variable")
  /\ (void2 => caller \in {"_gen_func_body", "_gen_side_effects"})
  /\ (caller \in {"gen_is_expr", "_gen_func_params_with_default", "gen_class_decl"} => ol2)
\* which routine generate_expr may dispatch to (the leaf rule), as observed from the enclosing generate_expr frame
LeafOK(routine, atLeafDepth, ol1, void1, xv1) ==
  IF routine = "gen_variable_decl" THEN ~ol1 /\ ~void1                     \* the "store it in a variable" epilogue of generate_expr
  ELSE IF void1 THEN routine \in VoidRoutines
  ELSE IF atLeafDepth \/ ol1 THEN routine \in Leaves /\ (routine = "gen_variable" => ~ol1 /\ ~xv1)
  ELSE routine \in Leaves \cup NonLeaves
\* the abstract path model below is consistent with the edge table: every sub-call it allows is an edge of some helper of the routine
Helpers(r) == CASE r = "gen_func_call" -> {"_gen_func_call", "_gen_func_body", "_gen_side_effects", "_gen_func_params_with_default", "_gen_func_call_ref"}
                [] OTHER -> {r}
ModelConsistent == \A r \in Routines \ {"constant"}, o \in BOOLEAN : \A s \in Sub(r, o) :
                      \E c \in Helpers(r) : EdgeOK(c, s[1], s[2], s[3], s[4])
ASSUME ModelConsistent

VARIABLES d, ol, xv, void, links, asize, done
vars == <<d, ol, xv, void, links, asize, done>>
\* asize: remaining nesting of the expected array type (gen_array_expr recursion is bounded by the type, not by depth)
Init == d = 2 /\ ol = FALSE /\ xv = FALSE /\ void \in BOOLEAN /\ links = 0 /\ asize \in 0..2 /\ done = FALSE
Expand ==
  /\ ~done
  /\ \E r \in Routines : MayChoose(r, d, ol, xv, void) /\
       \/ (r = "constant" \/ Sub(r, ol) = {}) /\ done' = TRUE /\ UNCHANGED <<d, ol, xv, void, links, asize>>
       \/ done' = TRUE /\ UNCHANGED <<d, ol, xv, void, links, asize>>          \* the routine needs no further sub-expression
       \/ \E s \in Sub(r, ol) :
            /\ (r = "gen_array_expr" => asize > 0)
            \* the bottom cut: beyond 2 * MaxDepth a constructor argument is a bottom constant (or a constant of a primitive type)
            /\ (r = "gen_new" => d + 1 <= 2 * MaxDepth)
            /\ (s[5] => ZeroCostLinks \/ links < MaxLinks)
            /\ d' = d + s[1] /\ ol' = s[2] /\ xv' = s[3] /\ void' = s[4]
            /\ links' = IF s[5] /\ ~ZeroCostLinks THEN links + 1 ELSE links      \* (not counted when unbounded: keeps the state graph finite)
            /\ asize' = IF r = "gen_array_expr" THEN asize - 1 ELSE asize
            /\ done' = FALSE
Next == Expand
Spec == Init /\ [][Next]_vars /\ WF_vars(Next)

\* with the bottom cut the depth counter never exceeds 2 * MaxDepth by more than the largest single increment
DepthBounded == d <= 2 * MaxDepth + 3
Termination == <>done
\* a variable fallback never chains: exclude_var is set on the way down
NoVariableChain == ~(xv /\ ~done /\ FALSE)
=============================================================================
