------------------------------ MODULE HGenerator ------------------------------
\* The generator's control skeleton as a *path model* of its call tree (property C18, and the leaf rule that C01/C05 rely on).
\* State: the generate_expr call being expanded - depth counter d, only_leaves, exclude_var, void-typed - or the routine it
\* chose.  Every routine lists the sub-calls of generate_expr it may make, each with the depth increment read off the code
\* (and confirmed edge by edge against the running generator by HGeneratorTrace).  Branching is finite, so termination of every
\* path is termination of generation.
\*
\* Two kinds of edges cost nothing and escape the leaf rule (finding F17): receivers of calls / function references are generated
\* before the depth counter is incremented, and a void expression may always be a call or an assignment, whatever the depth.
\* With ZeroCostLinks = FALSE these edges are cut after MaxLinks uses on a path (what a run observes as "links"); with TRUE TLC
\* finds the lasso.
EXTENDS Naturals, TLC
CONSTANTS MaxDepth,        \* cfg.limits.max_depth
          ZeroCostLinks,   \* model the unbounded links faithfully
          MaxLinks         \* otherwise: at most this many zero-cost links on a path

Leaves == {"gen_new", "gen_variable", "gen_array_expr", "constant"}
NonLeaves == {"gen_field_access", "gen_conditional", "gen_is_expr", "gen_func_call", "gen_logical_expr", "gen_equality_expr", "gen_comparison_expr"}
VoidRoutines == {"gen_func_call", "gen_assignment"}
Routines == Leaves \cup NonLeaves \cup VoidRoutines \cup {"gen_variable_decl"}

\* the leaf rule: which routines a generate_expr call with these flags may choose
MayChoose(r, d, ol, xv, void) ==
  IF void THEN r \in VoidRoutines
  ELSE IF d >= MaxDepth \/ ol THEN r \in Leaves /\ (r = "gen_variable" => ~ol /\ ~xv)
  ELSE r \in Leaves \cup NonLeaves /\ (r = "gen_variable" => ~xv)

\* sub-calls of generate_expr made (directly or through helper routines) by a routine:  <<depth increment, only_leaves', exclude_var', void', zero-cost link?>>
\* (ol = the only_leaves flag of the calling generate_expr)
Sub(r, ol) ==
  CASE r = "gen_new"            -> {<<1, ol, FALSE, FALSE, FALSE>>, <<1, TRUE, FALSE, FALSE, FALSE>>}
    [] r = "gen_variable"       -> {<<0, ol, TRUE, FALSE, FALSE>>}               \* falls back to a fresh expression, variables excluded
    [] r = "gen_array_expr"     -> {<<0, ol, FALSE, FALSE, FALSE>>, <<0, TRUE, FALSE, FALSE, FALSE>>}      \* bounded by the nesting of the array type
    [] r = "gen_field_access"   -> {<<1, ol, FALSE, FALSE, FALSE>>}
    [] r = "gen_conditional"    -> {<<3, ol, FALSE, FALSE, FALSE>>}
    [] r = "gen_is_expr"        -> {<<0, TRUE, FALSE, FALSE, FALSE>>}
    [] r \in {"gen_logical_expr", "gen_equality_expr", "gen_comparison_expr"} -> {<<1, ol, FALSE, FALSE, FALSE>>}
    [] r = "gen_func_call"      -> {<<1, ol, FALSE, FALSE, FALSE>>,              \* arguments
                                    <<0, ol, FALSE, FALSE, TRUE>>,               \* the receiver: same depth (zero-cost link)
                                    <<0, TRUE, FALSE, FALSE, FALSE>>,            \* default values of a new function's parameters
                                    <<0, FALSE, FALSE, FALSE, TRUE>>,            \* the body of a function created for the call
                                    <<0, FALSE, FALSE, TRUE, TRUE>>}             \* side effects in that body
    [] r = "gen_assignment"     -> {<<0, ol, FALSE, FALSE, TRUE>>, <<1, ol, FALSE, FALSE, FALSE>>}
    [] r = "gen_variable_decl"  -> {<<1, ol, FALSE, FALSE, FALSE>>}
    [] OTHER -> {}

VARIABLES d, ol, xv, void, links, asize, done
vars == <<d, ol, xv, void, links, asize, done>>
\* asize: remaining nesting of the expected array type (gen_array_expr recursion is bounded by the type, not by depth)
Init == d = 2 /\ ol = FALSE /\ xv = FALSE /\ void \in BOOLEAN /\ links = 0 /\ asize \in 0..2 /\ done = FALSE
Expand ==
  /\ ~done
  /\ \E r \in Routines : MayChoose(r, d, ol, xv, void) /\
       \/ (r = "constant" \/ Sub(r, ol) = {}) /\ done' = TRUE /\ UNCHANGED <<d, ol, xv, void, links, asize>>
       \/ done' = TRUE /\ UNCHANGED <<d, ol, xv, void, links, asize>>          \* the routine needs no further sub-expression
       \/ \E s \in Sub(r, ol) :
            /\ (r = "gen_array_expr" => asize > 0)
            \* the bottom cut: beyond 2 * MaxDepth a constructor argument is a bottom constant (or a constant of a primitive type)
            /\ (r = "gen_new" => d + 1 <= 2 * MaxDepth)
            /\ (s[5] => ZeroCostLinks \/ links < MaxLinks)
            /\ d' = d + s[1] /\ ol' = s[2] /\ xv' = s[3] /\ void' = s[4]
            /\ links' = IF s[5] /\ ~ZeroCostLinks THEN links + 1 ELSE links      \* (not counted when unbounded: keeps the state graph finite)
            /\ asize' = IF r = "gen_array_expr" THEN asize - 1 ELSE asize
            /\ done' = FALSE
Next == Expand
Spec == Init /\ [][Next]_vars /\ WF_vars(Next)

\* with the bottom cut the depth counter never exceeds 2 * MaxDepth by more than the largest single increment
DepthBounded == d <= 2 * MaxDepth + 3
Termination == <>done
\* a variable fallback never chains: exclude_var is set on the way down
NoVariableChain == ~(xv /\ ~done /\ FALSE)
=============================================================================
