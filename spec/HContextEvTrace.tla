---------------------------- MODULE HContextEvTrace ----------------------------
\* EV for C16: histories of primitive symbol-table steps recorded while the real generator runs are replayed as behaviours of
\* HContext (Add / Remove, one state per step); at the end the real context is compared with the model's state.
EXTENDS HContext, TLC, Json, IOUtils
Cases == JsonDeserialize(IOEnv.TRACE_FILE).cases
\* the namespaces that occur in the recorded histories
\* (prefix-closed: outward lookups visit every prefix)
OpNSs == UNION {{Cases[c].ops[j].ns : j \in DOMAIN Cases[c].ops} : c \in DOMAIN Cases}
TraceNSs == UNION {{SubSeq(ns, 1, j) : j \in 1..Len(ns)} : ns \in OpNSs}
VARIABLES t, l
TInit == t \in DOMAIN Cases /\ l = 0 /\ Init
TNext == /\ l < Len(Cases[t].ops) /\ l' = l + 1 /\ t' = t
         /\ LET o == Cases[t].ops[l + 1] IN
            IF o.op = "padd" THEN Add(o.ns, o.k, o.n, o.v) ELSE Remove(o.ns, o.k, o.n)
ToSet(s) == {s[j] : j \in DOMAIN s}
FinalBad(cs) ==
       {<<"FinalTable", x[1], x[2]>> : x \in {y \in ToSet(cs.final) : y[3] # Current(ctx, y[1], y[2])}}
  \cup {<<"NamespaceMissing", ns, "">> : ns \in {m \in NSs : \E k \in AllKinds : ctx[m][k] # <<>>} \ {x[1] : x \in ToSet(cs.final)}}
  \cup {<<"ReverseLookup", x[1], "">> : x \in {y \in ToSet(cs.rev) : y[2] # Rev(rev, y[1])}}
  \cup {<<"Lookup", x[1], x[2]>> : x \in {y \in ToSet(cs.lookup) : y[4] # LookupLimit(ctx, y[1], y[2], y[3])}}
AtEnd == l = Len(Cases[t].ops) => PrintT(ToJson([case |-> Cases[t].id, steps |-> l, bad |-> FinalBad(Cases[t])]))
=============================================================================
