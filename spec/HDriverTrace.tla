---------------------------- MODULE HDriverTrace ----------------------------
\* V step of C15: the events recorded from real sessions (gen_program returns, check_oracle returns, update_stats
\* applied, end of session) are replayed as behaviours of HDriver.  Which batch an "update" event belongs to is not
\* logged in worker-pool mode: TLC infers it (Update(b) for some checked b).  Trace actions never block: an event whose
\* spec action is not enabled is recorded as a violation and skipped, so every trace is consumed to its end and the
\* verdict names every failing clause.  All sessions of one run share BatchSize / NProgs / Pool.
EXTENDS HDriver, TLC, Json, IOUtils
Sessions == JsonDeserialize(IOEnv.TRACE_FILE).sessions
VARIABLES t, l, bad
ToSet(s) == {s[j] : j \in DOMAIN s}
Ev == Sessions[t].events
Scen == Sessions[t].scenario
TInit == Init /\ t \in DOMAIN Sessions /\ l = 0 /\ bad = {}
Keep == UNCHANGED vars

Gen(e) == LET o == Scen.outs[e.pid] IN
  IF ENABLED GenProgram(e.pid, o)
  THEN GenProgram(e.pid, o) /\ bad' = bad \cup (IF e.failed # ToolFailed(o) THEN {<<l + 1, "GenOutcome">>} ELSE {})
  ELSE Keep /\ bad' = bad \cup {<<l + 1, "GenNotEnabled">>}

CheckBad(e, cr, fsAfter) ==
  IF e.exc # "" THEN {<<l + 1, "CheckRaised">>} ELSE
       (IF ToSet(e.reported) # {p \in PidsOf(e.batch) : Fault(out[p], cr)} THEN {<<l + 1, "ReportedSet">>} ELSE {})
  \cup (IF \E j \in DOMAIN e.reported : e.reported[j] \in PidsOf(e.batch) /\ Fault(out[e.reported[j]], cr)
                                         /\ e.classes[j] \notin MsgClasses(out[e.reported[j]], cr) THEN {<<l + 1, "Message">>} ELSE {})
  \* (only the batch's own programs: in pool mode another check may be running concurrently and has saved directories already)
  \cup (IF ToSet(e.saved) \cap PidsOf(e.batch) # {x[2] : x \in {y \in fsAfter : y[1] = "saved" /\ y[2] \in PidsOf(e.batch)}}
        THEN {<<l + 1, "SavedDirs">>} ELSE {})
Chk(e) == LET cr == Scen.crashes[e.batch] IN
  IF ENABLED Check(e.batch, cr)
  THEN Check(e.batch, cr) /\ bad' = bad \cup CheckBad(e, cr, fs')
  ELSE Keep /\ bad' = bad \cup {<<l + 1, "CheckNotEnabled">>}

Explains(e, b) == /\ phase[b] = "checked"
                  /\ e.passed = passed + Cardinality(PidsOf(b)) - Cardinality(Reported(b))
                  /\ e.failed = failed + Cardinality(Reported(b))
                  /\ ToSet(e.faults) = DOMAIN faults \cup Reported(b)
Upd(e) ==
  IF \E b \in 1..NBatches : Explains(e, b)
  THEN \E b \in 1..NBatches : Explains(e, b) /\ Update(b)
                              /\ bad' = bad \cup (IF ToSet(e.faults_file) # ToSet(e.faults) THEN {<<l + 1, "FaultsFile">>} ELSE {})
  ELSE IF \E b \in 1..NBatches : phase[b] = "checked"
       THEN \E b \in 1..NBatches : Update(b) /\ bad' = bad \cup {<<l + 1, "Totals">>}
       ELSE Keep /\ bad' = bad \cup {<<l + 1, "UpdateNotEnabled">>}

End(e) ==
  IF ENABLED EndSession
  THEN EndSession /\ bad' = bad \cup (IF ToSet(e.saved) # {x[2] : x \in fs'} THEN {<<l + 1, "Leftovers">>} ELSE {})
                                  \cup (IF e.tmp_left THEN {<<l + 1, "TmpLeft">>} ELSE {})
                                  \cup (IF e.passed # passed \/ e.failed # failed THEN {<<l + 1, "FinalTotals">>} ELSE {})
  ELSE Keep /\ bad' = bad \cup {<<l + 1, "EndNotEnabled">>}

TNext == /\ l < Len(Ev) /\ l' = l + 1 /\ t' = t
         /\ LET e == Ev[l + 1] IN
            CASE e.ev = "gen" -> Gen(e) [] e.ev = "check" -> Chk(e) [] e.ev = "update" -> Upd(e) [] e.ev = "end" -> End(e)
\* one line per completed behaviour of a session (several when TLC had to guess the batch of an update)
AtEnd == l = Len(Ev) => PrintT(ToJson([id |-> Sessions[t].id, bad |-> bad, ended |-> ended]))
=============================================================================
