------------------------------ MODULE HSwitches ------------------------------
\* Generation switches are honoured (property C17): predicates over every type occurrence and every declared type
\* parameter of a generated program.  occ = set of [where, t, prov] (t a term of HTypes; prov = the routines that created
\* the projections occurring in t), tparams = set of [owner \in {"class","function"}, n, v, b].
EXTENDS HTypes
RECURSIVE HasInProj(_)
HasInProj(t) == (t.k = "W" /\ t.n = "in") \/ \E i \in DOMAIN t.a : HasInProj(t.a[i])
NoDeclSiteVariance(lang) == lang \in {"java", "groovy"}

\* the violated clauses, each with the offending items
SwitchBad(lang, sw, occ, tparams) ==
       {<<"UseSiteVarianceDisabled", o>> : o \in {x \in occ : sw.disUse /\ HasKind(x.t, {"W"})}}
  \cup {<<"ContravarianceDisabled", o>> : o \in {x \in occ : sw.disContra /\ ~sw.disUse /\ HasInProj(x.t)}}
  \cup {<<"BoundsDisabled", p>> : p \in {x \in tparams : sw.noBounds /\ x.b # <<>>}}
  \cup {<<"ParameterizedFunctionsDisabled", p>> : p \in {x \in tparams : sw.noParamFn /\ x.owner = "function"}}
  \cup {<<"NoDeclarationSiteVariance", p>> : p \in {x \in tparams : NoDeclSiteVariance(lang) /\ x.owner = "class" /\ x.v # "inv"}}
  \cup {<<"FunctionTypeParametersInvariant", p>> : p \in {x \in tparams : x.owner = "function" /\ x.v # "inv"}}

\* ---- the design: in the generator's skeleton (HGenerator) a projection can only be created by the guarded action; the
\* switch constants of that model are checked there.  Here: the configuration space itself.
Switches == [disUse : BOOLEAN, disContra : BOOLEAN, noBounds : BOOLEAN, noParamFn : BOOLEAN]
=============================================================================
