----------------------------- MODULE HTypesGen -----------------------------
\* G step of C06 (and the table source for C07-C10): TLC enumerates a parametric family of class tables -
\* built-ins {Any, Number, IntT, String}; A<vA T [: bA]>;  B<vB T [: bA]> : A<argB>;  Cc : B<argC>;
\* D<vD1 X, vD2 Y [: bD]> : A<argD> - keeps the well-formed ones (DeclWF, supertypes within bounds) and emits each
\* with a universe of well-formed terms (ground types, out/in/star projections, nesting <= 2).
EXTENDS HTypes, TLC, Json, SequencesExt

VARIABLE p     \* the parameters of the table
Vs == {"inv", "out", "in"}
T(b)  == Var("T", b)
X(b)  == Var("X", b)
Y(b)  == Var("Y", b)
Num == Cls("Number", <<>>)
IntT == Cls("Int", <<>>)
Str == Cls("String", <<>>)
CcT == Cls("Cc", <<>>)
A(x) == Cls("A", <<x>>)
B(x) == Cls("B", <<x>>)
D(x, y) == Cls("D", <<x, y>>)
TP(n, v, b) == [n |-> n, v |-> v, b |-> b]

ArgBs == {"T", "Int", "A<T>", "A<out T>", "A<in T>"}
ArgDs == {"X", "Y", "Str", "A<X>"}
BDs   == {"none", "Number", "X"}
\* the two sub-families (a full product would be ~15 000 tables): the A-B-Cc chain with D fixed, and D varying with B fixed
ChainFamily == [fam : {"chain"}, vA : Vs, bA : {"none", "Number"}, vB : Vs, argB : ArgBs, argC : {"Int", "Str"},
                vD1 : {"inv"}, vD2 : {"inv"}, bD : {"none"}, argD : {"Str"}]
DFamily     == [fam : {"d"}, vA : Vs, bA : {"none"}, vB : {"inv"}, argB : {"T"}, argC : {"Int"},
                vD1 : Vs, vD2 : Vs, bD : BDs, argD : ArgDs]

Table(q) ==
  LET bA == IF q.bA = "Number" THEN <<Num>> ELSE <<>>
      t  == T(bA)
      bD == CASE q.bD = "none" -> <<>> [] q.bD = "Number" -> <<Num>> [] q.bD = "X" -> <<X(<<>>)>>
      argB == CASE q.argB = "T" -> t [] q.argB = "Int" -> IntT [] q.argB = "A<T>" -> A(t)
                [] q.argB = "A<out T>" -> A(Wild("out", <<t>>)) [] q.argB = "A<in T>" -> A(Wild("in", <<t>>))
      argD == CASE q.argD = "X" -> X(<<>>) [] q.argD = "Y" -> Y(bD) [] q.argD = "Str" -> Str [] q.argD = "A<X>" -> A(X(<<>>))
  IN [Any    |-> [tp |-> <<>>, sup |-> <<>>],
      Number |-> [tp |-> <<>>, sup |-> <<TopT>>],
      Int    |-> [tp |-> <<>>, sup |-> <<Num>>],
      String |-> [tp |-> <<>>, sup |-> <<TopT>>],
      A      |-> [tp |-> <<TP("T", q.vA, bA)>>, sup |-> <<>>],
      B      |-> [tp |-> <<TP("T", q.vB, bA)>>, sup |-> <<A(argB)>>],
      Cc     |-> [tp |-> <<>>, sup |-> <<B(IF q.argC = "Int" THEN IntT ELSE Str)>>],
      D      |-> [tp |-> <<TP("X", q.vD1, <<>>), TP("Y", q.vD2, bD)>>, sup |-> <<A(argD)>>]]
Order == <<"A", "B", "Cc", "D">>

\* supertypes of every declaration are well-formed terms (arguments within the bounds of the class they instantiate)
SupersWF(CT) == \A c \in DOMAIN CT : \A s \in DOMAIN CT[c].sup : WF(CT, CT[c].sup[s])
GoodTable(CT) == DeclWF(CT) /\ SupersWF(CT)

\* ---- universe of terms --------------------------------------------------------------------------------------------
Args(S) == S \cup {Wild("out", <<s>>) : s \in S} \cup {Wild("in", <<s>>) : s \in S} \cup {Star}
G0 == {Num, IntT, Str, CcT}
L1(CT) == {t \in {A(x) : x \in Args(G0)} \cup {B(x) : x \in Args(G0)}
                 \cup {D(x, y) : x \in Args({Num, IntT}), y \in Args({IntT, Str})} : WF(CT, t)}
\* second level: arguments drawn from a spread of first-level terms
L1Core(CT) == {t \in L1(CT) : t.n \in {"A", "B"} /\ t.a[1] \in {IntT, Num, Wild("out", <<Num>>), Wild("in", <<IntT>>), Wild("out", <<CcT>>)}}
L2(CT) == {t \in {A(x) : x \in Args(L1Core(CT))} \cup {B(x) : x \in Args(L1Core(CT))} : WF(CT, t)}
Universe(CT, depth) == {TopT, Bot} \cup G0 \cup L1(CT) \cup (IF depth >= 2 THEN L2(CT) ELSE {})

\* ---- built-in arrays (C06): Array<T> and Kotlin's specialised arrays (IntArray = SArray<Int>: a class of its own, related to no Array<..>) ----
\* the driver replaces the declared variance of Array by the language's own (Java / Groovy arrays are covariant) and drops SArray terms
\* for the other languages
Arr(x) == Cls("Array", <<x>>)
SArr(x) == Cls("SArray", <<x>>)
ArrEntries == [Array |-> [tp |-> <<TP("T", "inv", <<>>)>>, sup |-> <<TopT>>], SArray |-> [tp |-> <<TP("T", "inv", <<>>)>>, sup |-> <<TopT>>]]
WithArrays(CT) == [c \in DOMAIN CT \cup DOMAIN ArrEntries |-> IF c \in DOMAIN CT THEN CT[c] ELSE ArrEntries[c]]
ArrTerms(CT) == {t \in {Arr(IntT), Arr(Num), Arr(Wild("out", <<Num>>)), Arr(Wild("in", <<IntT>>)), SArr(IntT), A(Arr(IntT)), A(SArr(IntT)),
                        A(Wild("out", <<Arr(IntT)>>)), B(SArr(IntT))} : WF(WithArrays(CT), t)}

CONSTANT UDepth
Init == p \in ChainFamily \cup DFamily
Next == UNCHANGED p
Good == GoodTable(Table(p))
Emit == Good => PrintT(ToJson([id |-> p, ct |-> Table(p), order |-> Order, u |-> SetToSeq(Universe(Table(p), UDepth))]))
\* C06 only: with the built-in arrays (the searches of C09 are run on the user-class universe, as before)
EmitArr == Good => PrintT(ToJson([id |-> p, ct |-> WithArrays(Table(p)), order |-> Order, u |-> SetToSeq(Universe(Table(p), UDepth) \cup ArrTerms(Table(p)))]))
=============================================================================
