------------------------------- MODULE HUnify -------------------------------
\* Contract of type unification (property C10), stated over terms: a non-empty result is a unifier.
EXTENDS HTypes

\* g matches the (already substituted) pattern p: identical except where p still has an open variable, and there the
\* component of g satisfies that variable's bound
RECURSIVE Match(_, _, _)
Match(CT, g, p) ==
  IF p.k = "V" THEN (g = p \/ p.a = <<>> \/
                     (IF g.k = "W" THEN (g.n # "out" \/ SubTop(CT, g.a[1], p.a[1])) ELSE SubTop(CT, g, p.a[1])))
  ELSE /\ g.k = p.k /\ g.n = p.n /\ Len(g.a) = Len(p.a)
       /\ \A i \in DOMAIN g.a : Match(CT, g.a[i], p.a[i])

\* bounds of the variables of a pattern: name |-> <<bound>> or <<>>
RECURSIVE VarBounds(_)
VarBounds(t) == IF t.k = "V" THEN {<<t.n, t.a>>} \cup UNION {VarBounds(t.a[i]) : i \in DOMAIN t.a}
                ELSE UNION {VarBounds(t.a[i]) : i \in DOMAIN t.a}

\* a bound that still mentions open variables is read existentially: its upper approximation with every open variable x
\* replaced by "out (bound of x)" (the capture approximation of HTypes)
OpenBound(CT, b, vbs) ==
  LET ub(x) == LET bs == {vb[2] : vb \in {w \in vbs : w[1] = x}} IN
               IF bs = {} \/ <<>> \in bs THEN TopT ELSE LET bb == (CHOOSE q \in bs : TRUE)[1] IN IF Ground(bb) THEN bb ELSE TopT
  IN Up(CT, b, [x \in FreeVars(b) |-> Wild("out", <<ub(x)>>)])
WithinBound(CT, img, b, vbs) ==
  LET bb == OpenBound(CT, b, vbs) IN
  IF img.k = "W" THEN (img.n # "out" \/ SubTop(CT, img.a[1], bb)) ELSE SubTop(CT, img, bb)

\* sigma : variable name |-> term (non-empty)
UnifierOK(CT, t1, t2, sigma, sameType) ==
  LET p == Subst(t2, sigma)
      \* the target's supertypes: by capture approximation or by textual substitution (the system's own representation, C07)
      G == IF sameType THEN {t1} ELSE Supers(CT, t1) \cup SupersTextual(CT, t1) IN
  /\ \E g \in G : Match(CT, g, p)
  /\ \A vb \in VarBounds(t2) : (vb[1] \in DOMAIN sigma /\ vb[2] # <<>>) => WithinBound(CT, sigma[vb[1]], Subst(vb[2][1], sigma), VarBounds(t2))

\* known-finding shape (F13): some position where target and pattern are both projections of different polarity
RECURSIVE PolarityClash(_, _)
PolarityClash(g, p) ==
  \/ g.k = "W" /\ p.k = "W" /\ g.n # p.n
  \/ g.k = p.k /\ g.n = p.n /\ Len(g.a) = Len(p.a) /\ \E i \in DOMAIN g.a : PolarityClash(g.a[i], p.a[i])
=============================================================================
