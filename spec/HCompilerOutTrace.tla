-------------------------- MODULE HCompilerOutTrace --------------------------
\* V step of C14: recorded results of the real analyze_compiler_output on rendered chunk streams (and on real javac output
\* whose ground truth is known by construction) against the ground truth of HCompilerOut.
EXTENDS HCompilerOut, TLC, Json, IOUtils
Runs == JsonDeserialize(IOEnv.TRACE_FILE).runs
VARIABLE r
Init == r \in DOMAIN Runs
Next == UNCHANGED r
Res(run) == [crash |-> run.crash, failed |-> {<<run.failed[j][1], run.failed[j][2]>> : j \in DOMAIN run.failed}]
\* known-finding shape (F8): an ordinary diagnostic whose text mentions a java.lang name
Shape(run) == IF run.compiler = "java" /\ \E j \in DOMAIN run.cs : run.cs[j].k = "err" /\ run.cs[j].m = 5 THEN "JavaLangInMessage" ELSE "plain"
Report == LET run == Runs[r]  b == AnalysisBad(run.cs, Res(run)) IN
          b = {} \/ PrintT(ToJson([run |-> run.id, bad |-> {<<cl, Shape(run)>> : cl \in b}]))
=============================================================================
