--------------------------- MODULE HPipelineTrace ---------------------------
\* V step: each recorded real iteration (scenario + the files found on disk + the ProgramRes) is compared with the final state the
\* model reaches for the same scenario.
EXTENDS HPipeline, IOUtils
Runs == JsonDeserialize(IOEnv.TRACE_FILE).runs
VARIABLE r
ToSet(s) == {s[j] : j \in DOMAIN s}
\* the scenario as recorded (tr is a JSON array)
ScOf(o) == [n |-> o.n, tr |-> [k \in 1..o.n |-> o.tr[k]], raiseAt |-> o.raiseAt, genRaises |-> o.genRaises, inj |-> o.inj, keepAll |-> o.keepAll, onlyCP |-> o.onlyCP]
TInit == r \in DOMAIN Runs /\ sc = ScOf(Runs[r].sc) /\ pc = "generate" /\ cur = 0 /\ marks = {} /\ pkg = 0 /\ files = [p \in {} |-> 0] /\ res = NoRes
TNext == Next /\ UNCHANGED r
ObsFiles(o) == {[path |-> o.files[j].path, text |-> ToSet(o.files[j].text), bin |-> ToSet(o.files[j].bin), pkg |-> o.files[j].pkg] : j \in DOMAIN o.files}
ObsProgs(o) == {<<o.programs[j][1], o.programs[j][2]>> : j \in DOMAIN o.programs}
Diff(o) ==
  {cl \in {"Files", "Failed", "Transformations", "Programs", "Error"} :
     CASE cl = "Files" -> ObsFiles(o) # FilesAsSet
       [] cl = "Failed" -> o.failed # res.failed
       [] cl = "Transformations" -> o.ntrans # res.ntrans
       [] cl = "Programs" -> ~res.failed /\ ~o.failed /\ ObsProgs(o) # res.programs
       [] cl = "Error" -> ~o.failed /\ ~res.failed /\ (o.error = "") # (res.error = "")}
AtEnd == Done => (Diff(Runs[r]) = {} \/ PrintT(ToJson([run |-> r, diff |-> Diff(Runs[r]), model |-> [files |-> FilesAsSet, res |-> res]])))
=============================================================================
