------------------------------ MODULE HMiniProg ------------------------------
\* G step for C03 / C04 on small programs: a parametric family of programs around one generic class, enumerated exhaustively by
\* TLC (the generator reaches these shapes only by chance; the seeded faults of the dependency analysis need exactly them):
\*
\*     class A<T>[(val f: T)] { fun foo(y: P): P = y }
\*     fun bar(z: Z) { val x: X = INIT [; val w: W = x] }
\*
\*     INIT  ::=  A<targ>(c)            "new"     (c: a constant of type targ when the class has the field)
\*             |  A<targ>(c).foo(z)     "call"
\*             |  A<targ>(c).f          "field"   (only with the field)
\*             |  z                     "var"
\*
\* The type names are interpreted by the driver (harness/drivers/mini_exec.py); which members of the family are well typed is
\* decided by HTyping on the built program (ill-typed members are not used).  Every member is then put through the real type
\* erasure and through the real type overwriting under every outcome of its random choices.
EXTENDS Naturals, Sequences, TLC, Json
TypeNames == {"Int", "String", "A<Int>", "A<String>", "A<A<String>>"}
PTypes == {"T", "String", "A<String>", "A<T>"}
Member == [field : BOOLEAN, p : PTypes, init : {"new", "call", "field", "var"}, targ : {"Int", "String"},
           x : TypeNames, z : TypeNames, w : {"none"} \cup TypeNames]
\* the type of INIT in the declarative reading (no subtyping exists between the type names of the family: assignable = equal)
SubstT(p, targ) == CASE p = "T" -> targ [] p = "A<T>" -> "A<" \o targ \o ">" [] OTHER -> p
NatT(q) == CASE q.init = "new" -> "A<" \o q.targ \o ">"
            [] q.init = "call" -> SubstT(q.p, q.targ)
            [] q.init = "field" -> q.targ
            [] q.init = "var" -> q.z
\* the well-typed members (HTyping re-checks every built program in declared mode; a member it rejects is not used)
Sensible(q) == /\ (q.init = "field" => q.field)
               /\ q.x = NatT(q)
               /\ (q.init = "call" => q.z = SubstT(q.p, q.targ))
               /\ (q.init # "call" => q.z \in {"Int", "A<String>"})
               /\ (q.w \in {"none", q.x})
VARIABLE m
Init == m \in {q \in Member : Sensible(q)}
Next == UNCHANGED m
Emit == PrintT(ToJson(m))
=============================================================================
