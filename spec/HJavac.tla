-------------------------------- MODULE HJavac --------------------------------
\* javac as the observed environment of the driver (property C02).  The spec does not judge Java programs - javac does; it states the
\* oracle contract every Compile event must satisfy:
\*   PassOracle        a file that is expected to compile (a generated or erased program) is not among the files javac reports
\*   BatchIndependent  javac's verdict on a file is the same alone, batched with others, in any order
\* Files are 1..NFiles; a batch is a sequence of distinct files; a Compile(b, failed) event records which files of b javac rejected.
EXTENDS Naturals, Sequences, FiniteSets, TLC, Json
CONSTANTS NFiles, MaxBatches, MaxBatchSize
Files == 1..NFiles
VARIABLES verdict,    \* file |-> TRUE (rejected) / FALSE (accepted), as first observed
          sched,      \* batches compiled so far
          done
Init == verdict = [f \in {} |-> FALSE] /\ sched = <<>> /\ done = FALSE
ToSet(s) == {s[j] : j \in DOMAIN s}
Distinct(s) == Cardinality(ToSet(s)) = Len(s)
Compile(b, failed) ==
  /\ Distinct(b) /\ failed \subseteq ToSet(b)
  /\ sched' = Append(sched, b)
  /\ verdict' = [f \in DOMAIN verdict \cup ToSet(b) |-> IF f \in DOMAIN verdict THEN verdict[f] ELSE f \in failed]
  /\ UNCHANGED done
\* clauses of one event
PassOracleBad(b, failed, expectPass) == {f \in failed : f \in expectPass}
BatchIndependentBad(b, failed) == {f \in ToSet(b) : f \in DOMAIN verdict /\ verdict[f] # (f \in failed)}

\* ---- G: compile schedules: every file alone first, then batches of several files in some order ------------------------------
Batches(n) == UNION {{s \in [1..k -> Files] : Distinct(s)} : k \in 2..n}
GNext == \/ /\ ~done /\ Len(sched) < MaxBatches
            /\ \E b \in Batches(MaxBatchSize) : Compile(b, {})
         \/ /\ ~done /\ Len(sched) = MaxBatches /\ done' = TRUE /\ UNCHANGED <<verdict, sched>>
            /\ PrintT(ToJson(sched))
=============================================================================
