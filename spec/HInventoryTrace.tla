---------------------------- MODULE HInventoryTrace ----------------------------
EXTENDS HInventory, TLC, Json, IOUtils
Sf == INSTANCE HSurface
Progs == JsonDeserialize(IOEnv.TRACE_FILE).progs
VARIABLE c
Init == c \in DOMAIN Progs
Next == UNCHANGED c
\* counts : sequence of <<kind, name, count>> measured in the text
Measured(P, kind, name) == LET hits == {j \in DOMAIN P.counts : P.counts[j][1] = kind /\ P.counts[j][2] = name} IN
                           IF hits = {} THEN 999999 ELSE P.counts[CHOOSE j \in hits : TRUE][3]
\* tcounts : sequence of <<kind, owner, type parameter, count>>
MeasuredT(P, kind, owner, tparam) == LET hits == {j \in DOMAIN P.tcounts : P.tcounts[j][1] = kind /\ P.tcounts[j][2] = owner /\ P.tcounts[j][3] = tparam} IN
                                     IF hits = {} THEN 999999 ELSE P.tcounts[CHOOSE j \in hits : TRUE][4]
Bad(P) == {<<pr[1], pr[2], Expected(P, pr[1], pr[2]), Measured(P, pr[1], pr[2])>> :
             pr \in {q \in Probes(P) : Expresses(P.lang, q[1]) /\ Differs(q[1], Expected(P, q[1], q[2]), Measured(P, q[1], q[2]))}}
          \cup {<<pr[1], pr[2] \o "." \o pr[3], ExpectedT(P, pr[1], pr[2], pr[3]), MeasuredT(P, pr[1], pr[2], pr[3])>> :
                 pr \in {q \in TProbes(P) : ExpressesT(P.lang, q[1]) /\ ExpectedT(P, q[1], q[2], q[3]) # MeasuredT(P, q[1], q[2], q[3])}}
Report == LET P == Progs[c]  b == Bad(P) IN PrintT(ToJson([prog |-> P.id, probes |-> Cardinality(Probes(P)) + Cardinality(TProbes(P)), bad |-> b, hbad |-> Sf!SurfaceBad(P), hdrs |-> Sf!Judged(P)]))
=============================================================================
