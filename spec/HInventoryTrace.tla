---------------------------- MODULE HInventoryTrace ----------------------------
EXTENDS HInventory, TLC, Json, IOUtils
Progs == JsonDeserialize(IOEnv.TRACE_FILE).progs
VARIABLE c
Init == c \in DOMAIN Progs
Next == UNCHANGED c
\* counts : sequence of <<kind, name, count>> measured in the text
Measured(P, kind, name) == LET hits == {j \in DOMAIN P.counts : P.counts[j][1] = kind /\ P.counts[j][2] = name} IN
                           IF hits = {} THEN 999999 ELSE P.counts[CHOOSE j \in hits : TRUE][3]
Bad(P) == {<<pr[1], pr[2], Expected(P, pr[1], pr[2]), Measured(P, pr[1], pr[2])>> :
             pr \in {q \in Probes(P) : Expresses(P.lang, q[1]) /\ Expected(P, q[1], q[2]) # Measured(P, q[1], q[2])}}
Report == LET P == Progs[c]  b == Bad(P) IN PrintT(ToJson([prog |-> P.id, probes |-> Cardinality(Probes(P)), bad |-> b]))
=============================================================================
