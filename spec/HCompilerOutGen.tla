--------------------------- MODULE HCompilerOutGen ---------------------------
\* G step of C14: every chunk stream up to a length (exhaustive) or random longer ones (-simulate).
EXTENDS HCompilerOut, TLC, Json
CONSTANT MaxLen
VARIABLES cs, done
GInit == cs = <<>> /\ done = FALSE
Finish == /\ ~done /\ done' = TRUE /\ UNCHANGED cs /\ cs # <<>>
          /\ PrintT(ToJson(cs))
\* in exhaustive mode every prefix is emitted too (Finish is enabled at every length); in -simulate mode one stream per behaviour
GNext == \/ Len(cs) < MaxLen /\ ~done /\ \E c \in Chunk : cs' = Append(cs, c) /\ done' = done
         \/ Finish
GNextSim == \/ Len(cs) < MaxLen /\ ~done /\ \E c \in Chunk : cs' = Append(cs, c) /\ done' = done
            \/ Len(cs) = MaxLen /\ Finish
\* design invariant: removing a neutral chunk does not change the ground truth
NeutralInv == \A j \in DOMAIN cs : Neutral(cs[j]) =>
                 LET without == [i \in 1..(Len(cs) - 1) |-> IF i < j THEN cs[i] ELSE cs[i + 1]] IN
                 /\ IsCrash(without) = IsCrash(cs)
                 /\ FailedFiles(without) = FailedFiles(cs)
                 /\ \A f \in 1..NFiles : MsgsOf(without, f) = MsgsOf(cs, f)
=============================================================================
