---------------------------- MODULE HUnifyTrace ----------------------------
\* V step of C10: every non-empty result of the real unify_types is checked to be a unifier.
EXTENDS HUnify, TLC, Json, IOUtils
Cases == JsonDeserialize(IOEnv.TRACE_FILE).cases
VARIABLE c
Init == c \in DOMAIN Cases
Next == UNCHANGED c
\* r = [i, j, same, sigma]  (indices into u and ps; sigma a record name |-> term)
Bad(cs) ==
  {<<"Unifier", r.i, r.j, r.same, IF PolarityClash(cs.u[r.i], cs.ps[r.j]) THEN "PolarityClash"
                                    ELSE IF ~r.same /\ cs.u[r.i].k = "C" /\ ~Ground(cs.u[r.i]) THEN "OpenTargetSupertypeMode" ELSE "plain">> :
      r \in {x \in {cs.res[k] : k \in DOMAIN cs.res} : ~UnifierOK(cs.ct, cs.u[x.i], cs.ps[x.j], x.sigma, x.same)}}
  \cup {<<"NoException", e[1], e[2], e[3], "plain">> : e \in {cs.errs[k] : k \in DOMAIN cs.errs}}
\* one representative per (clause, shape) class, plus the total count
Report == LET b == Bad(Cases[c]) IN
          b = {} \/ PrintT(ToJson([case |-> Cases[c].id, n |-> Cardinality(b),
                                   bad |-> {CHOOSE x \in {y \in b : y[1] = cs[1] /\ y[5] = cs[2]} : TRUE : cs \in {<<y[1], y[5]>> : y \in b}}]))
=============================================================================
