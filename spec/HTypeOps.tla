------------------------------ MODULE HTypeOps ------------------------------
\* Contracts of the type-search and instantiation helpers of src/ir/type_utils.py (properties C08, C09), as pure
\* predicates over (arguments, result) judged by the declarative relation of HTypes.  They are the V step both for
\* synthetic calls (GEV) and for the calls recorded while the generator and the mutations run (EV).
EXTENDS HTypes

SelfTerm(CT, c) == Cls(c, [i \in DOMAIN CT[c].tp |-> Var(CT[c].tp[i].n, CT[c].tp[i].b)])
\* a bare generic class on the left of a subtype judgement is read as its self type
AsType(CT, r) == IF r.k = "K" THEN SelfTerm(CT, r.n) ELSE r
\* the bound that stands for a type variable (transitively), or the variable itself when it has none
RECURSIVE HasIn(_)
HasIn(t) == (t.k = "W" /\ t.n = "in") \/ \E i \in DOMAIN t.a : HasIn(t.a[i])
RECURSIVE Hat(_)
\* (a variable bounded by the top type is the same type as an unbounded one: it stands for itself)
Hat(T) == IF T.k = "V" /\ T.a # <<>> THEN (IF Hat(T.a[1]) = TopT THEN [k |-> "V", n |-> T.n, a |-> <<>>] ELSE Hat(T.a[1])) ELSE T

\* ---- C09: subtype search ---------------------------------------------------------------------------------------
Usable(r, concreteOnly) == concreteOnly => r.k # "K"
FindSubtypesBad(CT, T, res, includeSelf, concreteOnly, selfIn) ==
  {cl \in {"Usable", "IsSubtype", "SelfIncluded"} :
     CASE cl = "Usable"       -> \E r \in res : ~Usable(r, concreteOnly)
       [] cl = "IsSubtype"    -> \E r \in res : ~SubTop(CT, AsType(CT, r), T)
       [] cl = "SelfIncluded" -> selfIn \notin {"n/a", IF includeSelf THEN "all" ELSE "none"}}     \* n/a: no call returned
\* the offending results (for reporting and for the known-finding shape)
NonSubtypes(CT, T, res) == {r \in res : ~SubTop(CT, AsType(CT, r), T)}

\* ---- C09: irrelevant-type search ----------------------------------------------------------------------------------
FindIrrelevantBad(CT, T, res, sawNone) ==
  {cl \in {"Unrelated", "NothingForTop"} :
     CASE cl = "Unrelated"     -> \E r \in res : SubTop(CT, AsType(CT, r), Hat(T)) \/ SubTop(CT, Hat(T), AsType(CT, r))
       [] cl = "NothingForTop" -> T = TopT /\ res # {}}
Related(CT, T, res) == {r \in res : SubTop(CT, AsType(CT, r), Hat(T)) \/ SubTop(CT, Hat(T), AsType(CT, r))}

\* known-finding shape (F12): somewhere in the query a type that itself carries a projection sits in a contravariant
\* position - under an "in" projection or in the slot of a declared-contravariant parameter; the search then offers
\* subtypes of that inner type where supertypes are needed
RECURSIVE InOverProjection(_, _)
InOverProjection(CT, T) ==
  \/ T.k = "W" /\ T.n = "in" /\ T.a # <<>> /\ HasKind(T.a[1], {"W"})
  \/ T.k = "C" /\ T.n \in DOMAIN CT /\ \E i \in DOMAIN T.a : i \in DOMAIN CT[T.n].tp /\ CT[T.n].tp[i].v = "in" /\ HasKind(T.a[i], {"W"})
  \/ \E i \in DOMAIN T.a : InOverProjection(CT, T.a[i])

\* ---- C08: instantiation helpers -------------------------------------------------------------------------------------
\* tps     : Seq([n, v, b])            the type parameters being instantiated (of a class or of a generic function)
\* pre     : name |-> term             assignments requested by the caller (partial)
\* choices : [on, m]   on = FALSE: the caller passes no variance choices (no projection anywhere);
\*                     m : name |-> <<canOut, canIn>>, a missing name means <<TRUE, TRUE>>
\* sw      : [disUse, disContra]       the global switches
\* args    : Seq(term)                 the result, one argument per parameter
Core1(a) == IF a.k = "W" /\ a.a # <<>> THEN a.a[1] ELSE a
ArgMap(tps, args) == [x \in {tps[i].n : i \in DOMAIN tps} |-> args[CHOOSE i \in DOMAIN tps : tps[i].n = x]]
MentionedByOther(tps, i) == \E j \in DOMAIN tps : j # i /\ tps[j].b # <<>> /\ tps[i].n \in FreeVars(tps[j].b[1])
Bit(choices, n, pol) == IF n \in DOMAIN choices.m THEN choices.m[n][IF pol = "out" THEN 1 ELSE 2] ELSE TRUE
Allowed(tps, choices, sw, i, pol) ==
  /\ choices.on
  /\ pol \in {"out", "in"}
  /\ Bit(choices, tps[i].n, pol)
  /\ (tps[i].v = "inv" \/ tps[i].v = pol)
  /\ ~sw.disUse
  /\ (pol = "in" => ~sw.disContra)
  /\ ~MentionedByOther(tps, i)
\* is a requested assignment consistent with the parameter's bound (given the other arguments)?
PreConsistent(CT, tps, args, i) ==
  tps[i].b = <<>> \/ (LET a == args[i] IN (a.k = "W" /\ a.a = <<>>) \/ SubTop(CT, Core1(a), Up(CT, tps[i].b[1], ArgMap(tps, args))))
\* (each clause is a named operator: is there a parameter i at which it fails?)
WithinBoundFails(CT, tps, pre, args, i) ==
  LET m == ArgMap(tps, args) IN
  (tps[i].n \notin DOMAIN pre) /\ (tps[i].b # <<>>) /\ (args[i].k # "W" \/ args[i].n = "out")
  /\ (\A j \in DOMAIN tps : (tps[j].n \in DOMAIN pre /\ tps[j].n \in FreeVars(tps[i].b[1])) => PreConsistent(CT, tps, args, j))
  /\ ~SubTop(CT, Core1(args[i]), Up(CT, tps[i].b[1], m))
RequestedKeptFails(CT, tps, pre, args) ==
  \* demanded when keeping every request would have been consistent with the bounds, given what was chosen for the others
  LET want == [i \in DOMAIN tps |-> IF tps[i].n \in DOMAIN pre THEN pre[tps[i].n] ELSE args[i]] IN
  (\A j \in DOMAIN tps : PreConsistent(CT, tps, want, j))
  /\ (\E i \in DOMAIN tps : (tps[i].n \in DOMAIN pre) /\ (args[i] # pre[tps[i].n])
                              /\ ~(args[i].k = "W" /\ pre[tps[i].n].k # "W" /\ Core1(args[i]) = pre[tps[i].n]))
\* The caller's options of instantiate_type_constructor, opt = [isfun, pecs, dvf, dv]: disable_variance (dv) "overrides all previous
\* options", disable_variance_functions (dvf) does so for function types, and for a function type with enable_pecs the helper's own
\* producer-extends / consumer-super choices replace the caller's (parameters may be contravariant, the result covariant).
DefaultOpt == [isfun |-> FALSE, pecs |-> TRUE, dvf |-> FALSE, dv |-> FALSE]
EffChoices(tps, choices, opt) ==
  LET names == {tps[i].n : i \in DOMAIN tps} IN
  IF opt.dv \/ (opt.dvf /\ opt.isfun) THEN [on |-> TRUE, m |-> [x \in names |-> <<FALSE, FALSE>>]]
  ELSE IF opt.pecs /\ opt.isfun /\ tps # <<>> THEN [on |-> TRUE, m |-> [x \in names |-> IF x = tps[Len(tps)].n THEN <<TRUE, FALSE>> ELSE <<FALSE, TRUE>>]]
  ELSE choices
ProjectionFails(tps, pre, choices, sw, args, i) ==
  (args[i].k = "W") /\ ~(tps[i].n \in DOMAIN pre /\ pre[tps[i].n] = args[i]) /\ ~Allowed(tps, choices, sw, i, args[i].n)
\* projections among the type arguments of t (the bound a type-variable term carries along is not part of the type written here)
RECURSIVE ArgProj(_, _)
ArgProj(t, ns) == IF t.k = "V" THEN FALSE ELSE (t.k = "W" /\ t.n \in ns) \/ \E i \in DOMAIN t.a : ArgProj(t.a[i], ns)
DeepFails(tps, pre, choices, sw, args, i) ==     \* below the top level of an argument
  (tps[i].n \notin DOMAIN pre) /\ (((~choices.on \/ sw.disUse) /\ ArgProj(Core1(args[i]), {"out", "in", "star"})) \/ (sw.disContra /\ ArgProj(Core1(args[i]), {"in"})))
InstBad(CT, tps, pre, choices, sw, args, map) ==
  IF Len(args) # Len(tps) THEN {"OneArgumentPerParameter"} ELSE
  {cl \in {"WithinBound", "NoPrimitiveOrBareArgument", "RequestedKept", "ProjectionAllowed", "SwitchesDeep", "MapConsistent"} :
     CASE cl = "WithinBound" -> \E i \in DOMAIN tps : WithinBoundFails(CT, tps, pre, args, i)
       [] cl = "NoPrimitiveOrBareArgument" -> \E i \in DOMAIN tps : (tps[i].n \notin DOMAIN pre) /\ HasKind(args[i], {"P", "K"})
       [] cl = "RequestedKept" -> RequestedKeptFails(CT, tps, pre, args)
       [] cl = "ProjectionAllowed" -> \E i \in DOMAIN tps : ProjectionFails(tps, pre, choices, sw, args, i)
       [] cl = "SwitchesDeep" -> \E i \in DOMAIN tps : DeepFails(tps, pre, choices, sw, args, i)
       [] cl = "MapConsistent" -> \E i \in DOMAIN tps : (tps[i].n \notin DOMAIN map) \/ (map[tps[i].n] # args[i])}

\* known-finding shape: the query mentions a class one of whose parameters is bounded by another of its parameters
\* (class D<X, Y : X>); _construct_related_types handles such pairs heuristically
RECURSIVE DependentParam(_, _)
DependentParam(CT, T) ==
  \/ T.k = "C" /\ T.n \in DOMAIN CT /\ \E i \in DOMAIN CT[T.n].tp : CT[T.n].tp[i].b # <<>> /\ CT[T.n].tp[i].b[1].k = "V"
  \/ \E i \in DOMAIN T.a : DependentParam(CT, T.a[i])
\* sub-shape of a DependentParam query C<..>: declared variance of the bounding parameter X and the kind of the argument in the
\* dependent slot Y (plain / out / in / star), so that the known defects of this branch are listed one input shape at a time
ArgKind(a) == IF a.k = "W" THEN a.n ELSE "plain"
DepSub(CT, T) ==
  IF T.k = "C" /\ T.n \in DOMAIN CT /\ Len(T.a) = Len(CT[T.n].tp) /\ \E j \in DOMAIN CT[T.n].tp : CT[T.n].tp[j].b # <<>> /\ CT[T.n].tp[j].b[1].k = "V"
  THEN LET tps == CT[T.n].tp
           j == CHOOSE j \in DOMAIN tps : tps[j].b # <<>> /\ tps[j].b[1].k = "V" /\ \A q \in DOMAIN tps : (tps[q].b # <<>> /\ tps[q].b[1].k = "V") => j <= q
           is == {i \in DOMAIN tps : tps[i].n = tps[j].b[1].n} IN
       (IF is = {} THEN "outer" ELSE tps[CHOOSE i \in is : TRUE].v) \o "." \o ArgKind(T.a[j])
       \* ... and whether the query itself respects the dependency: the (bound of the) argument in the dependent slot is unrelated to the
       \* argument of the bounding parameter (D<Number, in Int> where Int is no Number - Scala), a query outside the bound Y : X
       \o (IF is # {} /\ T.a[j].k = "W" /\ T.a[j].n = "in" /\ T.a[j].a # <<>> /\ tps[CHOOSE i \in is : TRUE].v = "out"     \* (shape out.in only: the others are listed as they are)
              /\ (LET a1 == T.a[CHOOSE i \in is : TRUE]  b == T.a[j].a[1] IN a1.k # "W" /\ ~SubTop(CT, b, a1) /\ ~SubTop(CT, a1, b))
           THEN ".unrelated" ELSE "")
  ELSE "nested"
\* a parameter whose bound is a parameterized type that mentions another parameter (class Low<A, Y : Lymphoma<G, A, A>, F>): the search
\* re-instantiates the argument in Y's slot to fit the bound for the new A (_replace_type_argument) even where the slot is invariant
RECURSIVE ParamInBound(_, _)
ParamInBound(CT, T) ==
  \/ T.k = "C" /\ T.n \in DOMAIN CT /\ \E i \in DOMAIN CT[T.n].tp : CT[T.n].tp[i].b # <<>> /\ CT[T.n].tp[i].b[1].k # "V" /\ FreeVars(CT[T.n].tp[i].b[1]) # {}
  \/ \E i \in DOMAIN T.a : ParamInBound(CT, T.a[i])
=============================================================================
