------------------------------ MODULE HTypeOps ------------------------------
\* Contracts of the type-search and instantiation helpers of src/ir/type_utils.py (properties C08, C09), as pure
\* predicates over (arguments, result) judged by the declarative relation of HTypes.  They are the V step both for
\* synthetic calls (GEV) and for the calls recorded while the generator and the mutations run (EV).
EXTENDS HTypes

SelfTerm(CT, c) == Cls(c, [i \in DOMAIN CT[c].tp |-> Var(CT[c].tp[i].n, CT[c].tp[i].b)])
\* a bare generic class on the left of a subtype judgement is read as its self type
AsType(CT, r) == IF r.k = "K" THEN SelfTerm(CT, r.n) ELSE r
\* the bound that stands for a type variable (transitively), or the variable itself when it has none
RECURSIVE Hat(_)
Hat(T) == IF T.k = "V" /\ T.a # <<>> THEN Hat(T.a[1]) ELSE T

\* ---- C09: subtype search ---------------------------------------------------------------------------------------
Usable(r, concreteOnly) == concreteOnly => r.k # "K"
FindSubtypesBad(CT, T, res, includeSelf, concreteOnly, selfIn) ==
  {cl \in {"Usable", "IsSubtype", "SelfIncluded"} :
     CASE cl = "Usable"       -> \E r \in res : ~Usable(r, concreteOnly)
       [] cl = "IsSubtype"    -> \E r \in res : ~SubTop(CT, AsType(CT, r), T)
       [] cl = "SelfIncluded" -> selfIn \notin {"n/a", IF includeSelf THEN "all" ELSE "none"}}     \* n/a: no call returned
\* the offending results (for reporting and for the known-finding shape)
NonSubtypes(CT, T, res) == {r \in res : ~SubTop(CT, AsType(CT, r), T)}

\* ---- C09: irrelevant-type search ----------------------------------------------------------------------------------
FindIrrelevantBad(CT, T, res, sawNone) ==
  {cl \in {"Unrelated", "NothingForTop"} :
     CASE cl = "Unrelated"     -> \E r \in res : SubTop(CT, AsType(CT, r), Hat(T)) \/ SubTop(CT, Hat(T), AsType(CT, r))
       [] cl = "NothingForTop" -> T = TopT /\ res # {}}
Related(CT, T, res) == {r \in res : SubTop(CT, AsType(CT, r), Hat(T)) \/ SubTop(CT, Hat(T), AsType(CT, r))}

\* known-finding shape (F12): the query type has an "in" projection around a type that itself carries a projection
RECURSIVE InOverProjection(_)
InOverProjection(T) ==
  \/ T.k = "W" /\ T.n = "in" /\ T.a # <<>> /\ HasKind(T.a[1], {"W"})
  \/ \E i \in DOMAIN T.a : InOverProjection(T.a[i])
\* known-finding shape: the query mentions a class one of whose parameters is bounded by another of its parameters
\* (class D<X, Y : X>); _construct_related_types handles such pairs heuristically
RECURSIVE DependentParam(_, _)
DependentParam(CT, T) ==
  \/ T.k = "C" /\ T.n \in DOMAIN CT /\ \E i \in DOMAIN CT[T.n].tp : CT[T.n].tp[i].b # <<>> /\ CT[T.n].tp[i].b[1].k = "V"
  \/ \E i \in DOMAIN T.a : DependentParam(CT, T.a[i])
=============================================================================
