---------------------------- MODULE HGeneratorTrace ----------------------------
\* EV for C18: what the instrumented pipeline recorded for each program (distinct call edges of the generator, dispatch
\* decisions of generate_expr, depth bookkeeping, nesting, outcome of every pipeline stage) against HGenerator.
EXTENDS HGenerator, Sequences, FiniteSets, Json, IOUtils
Progs == JsonDeserialize(IOEnv.TRACE_FILE).programs
VARIABLE c
TInit == c \in DOMAIN Progs /\ d = 0 /\ ol = FALSE /\ xv = FALSE /\ void = FALSE /\ links = 0 /\ asize = 0 /\ done = TRUE
TNext == UNCHANGED <<c, vars>>
ToSet(s) == {s[j] : j \in DOMAIN s}
\* K: slack of the nesting bound (frames of generate_expr on the call stack that were entered through a depth-increasing edge)
NestBound(md) == 2 * md + 6
DeclSlack == 10
Bad(p) ==
       {<<"NoException." \o st.stage, st.exc>> : st \in {x \in ToSet(p.stages) : x.exc # ""}}
  \cup {<<"EdgeInModel", e>> : e \in {x \in ToSet(p.edges) : ~EdgeOK(x[1], x[2], x[3], x[4], x[5])}}
  \cup {<<"LeafRule", e>> : e \in {x \in ToSet(p.leaf) : ~LeafOK(x[1], x[2], x[3], x[4], x[5])}}
  \cup {<<"DepthRestored", e>> : e \in ToSet(p.restore_bad)}
  \* (the raw depth counter also counts the nesting of declarations around a body - classes, functions, lambdas - and the zero-cost
  \*  links of F17; a calibrated slack for it failed on larger samples and was dropped: the statement bounds the *expression nesting*,
  \*  which is NestingBound below)
  \cup (IF p.maxnest_paid > NestBound(p.max_depth) THEN {<<"NestingBound", p.maxnest_paid>>} ELSE {})
  \cup (IF p.calls > 1000000 THEN {<<"StepBudget", p.calls>>} ELSE {})
Report == LET p == Progs[c]  b == Bad(p) IN b = {} \/ PrintT(ToJson([prog |-> p.id, bad |-> b]))
=============================================================================
