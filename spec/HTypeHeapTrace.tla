--------------------------- MODULE HTypeHeapTrace ---------------------------
\* V step of C07: each recorded history is replayed as a behaviour of HTypeHeap (one state per operation); the recorded
\* result, its supertypes and the immutability frame are checked at every step.
EXTENDS HTypeHeap, TLC, Json, IOUtils
Cases == JsonDeserialize(IOEnv.TRACE_FILE).cases
VARIABLES t, l, results, answers, vvs
TInit == t \in DOMAIN Cases /\ l = 0 /\ results = <<>> /\ answers = [q \in {} |-> TRUE] /\ vvs = <<>>
Step(cs, i) == cs.steps[i]
\* the sigma of a recorded step is a JSON object (record); an empty one is the empty function
TNext == /\ l < Len(Cases[t].steps) /\ l' = l + 1 /\ t' = t
         /\ LET o == Step(Cases[t], l + 1) IN
            /\ results' = Append(results, IF o.res = <<>> THEN Opaque ELSE
                                          IF Expected(Cases[t].ct, results, o) = Opaque THEN Opaque ELSE o.res[1])
            /\ vvs' = Append(vvs, {<<o.vv[i][1], o.vv[i][2]>> : i \in DOMAIN o.vv})     \* (variable, variance) pairs occurring in the result
            /\ answers' = IF o.op = "issub" /\ o.answer # <<>> /\ <<results[o.r], results[o.r2]>> \notin DOMAIN answers
                          THEN [q \in DOMAIN answers \cup {<<results[o.r], results[o.r2]>>} |->
                                   IF q \in DOMAIN answers THEN answers[q] ELSE o.answer[1]]
                          ELSE answers
Range1(s) == {s[j] : j \in DOMAIN s}
RECURSIVE AllVars(_)
AllVars(x) == (IF x.k = "V" THEN {x.n} ELSE {}) \cup UNION {AllVars(x.a[j]) : j \in DOMAIN x.a}     \* including variables inside bounds
\* clauses violated by the step that led to the current state (evaluated on the pre-state `prev`)
BadStep(cs, i, prev, prevAnswers) ==
  LET o == Step(cs, i)  CT == cs.ct  vv == {<<o.vv[j][1], o.vv[j][2]>> : j \in DOMAIN o.vv} IN
  {cl \in {"NoException", "ResultIsSubstitution", "SupertypesSubstituted", "SubstLaws", "VariableFree", "Immutable", "MeaningKept",
           "EmptySubstEqual", "VarianceKept"} :
     CASE cl = "NoException"  -> o.exc # ""
       [] cl = "ResultIsSubstitution" -> o.exc = "" /\ o.res # <<>> /\ ~ResultOK(CT, prev, o, o.res[1])
       [] cl = "SupertypesSubstituted" -> o.exc = "" /\ o.res # <<>> /\ ~SupersOK(CT, prev, o, Range1(o.supers), cs.ev)
       [] cl = "SubstLaws"    -> o.exc = "" /\ o.res # <<>> /\ ~SubstLaws(prev, o, o.res[1])
       [] cl = "VariableFree" -> o.exc = "" /\ o.res # <<>> /\ ~TVFreeOK(o, o.res[1])
       [] cl = "Immutable"    -> o.changed # <<>>
       \* substituting with the empty map returns a type the system itself considers equal
       [] cl = "EmptySubstEqual" -> o.op = "subst" /\ o.exc = "" /\ DOMAIN o.sigma = {} /\ ~o.eq
       \* a variable that survives a substitution, and every variable of a self type, keeps its declared variance
       [] cl = "VarianceKept" -> \/ o.op = "subst" /\ o.exc = "" /\ ~({x \in vv : x[1] \notin UNION {AllVars(o.sigma[y]) : y \in DOMAIN o.sigma}} \subseteq vvs[o.r])
                                 \/ o.op = "self" /\ o.exc = "" /\ vv # {<<CT[o.c].tp[j].n, CT[o.c].tp[j].v>> : j \in DOMAIN CT[o.c].tp}
       [] cl = "MeaningKept"  -> o.op = "issub" /\ o.answer # <<>> /\ <<prev[o.r], prev[o.r2]>> \in DOMAIN prevAnswers
                                 /\ prevAnswers[<<prev[o.r], prev[o.r2]>>] # o.answer[1]}
\* the pre-state is reconstructed from the current one: results without the last element
Report == l = 0 \/ LET prev == SubSeq(results, 1, l - 1)
                       b == BadStep(Cases[t], l, prev, answers) IN
                   b = {} \/ PrintT(ToJson([case |-> Cases[t].id, step |-> l, bad |-> b]))
=============================================================================
