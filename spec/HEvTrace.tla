------------------------------- MODULE HEvTrace -------------------------------
\* EV for C06 / C08 / C09 / C10: the calls the generator and the mutations actually issue, recorded while real programs are
\* generated, judged against the completed class table of the program.  Events whose terms mention a class that is not in the
\* final table (or with another arity) cannot be judged and are counted as skipped.
EXTENDS HTypeOpsTrace, HUnify
Ops == INSTANCE HOperands
RECURSIVE KnownT(_, _)
KnownT(CT, t) == (t.k \in {"C", "K"} => t.n \in DOMAIN CT /\ (t.k = "K" \/ Len(t.a) = Len(CT[t.n].tp))) /\ \A j \in DOMAIN t.a : KnownT(CT, t.a[j])
TermsOf(ev) ==
  CASE ev.kind = "is_subtype" -> {ev.S, ev.T}
    [] ev.kind \in {"find_subtypes", "find_irrelevant"} -> {ev.T} \cup Rng(ev.res)
    [] ev.kind = "instantiate" -> UNION {Rng(ev.outs[o].args) : o \in DOMAIN ev.outs} \cup {ev.pre[x] : x \in DOMAIN ev.pre}
                                  \cup UNION {Rng(ev.tps[j].b) : j \in DOMAIN ev.tps}
    [] ev.kind = "unify" -> {ev.t1, ev.t2} \cup {ev.sigma[x] : x \in DOMAIN ev.sigma}
    [] ev.kind \in {"match", "pick"} -> {ev.S, ev.T}
    [] OTHER -> {}
\* a primitive is read as its boxed class here (the implementation represents both by one class; C06 makes no claim about primitives)
RECURSIVE Box(_)
Box(t) == [k |-> IF t.k = "P" THEN "C" ELSE t.k, n |-> t.n, a |-> [j \in DOMAIN t.a |-> Box(t.a[j])]]
BoxSeq(s) == [j \in DOMAIN s |-> Box(s[j])]
BoxEv(ev) ==
  CASE ev.kind \in {"find_subtypes", "find_irrelevant"} -> [ev EXCEPT !.T = Box(@), !.res = BoxSeq(@)]
    [] ev.kind = "instantiate" -> [ev EXCEPT !.outs = [o \in DOMAIN @ |-> [args |-> BoxSeq(@[o].args), map |-> [x \in DOMAIN @[o].map |-> Box(@[o].map[x])]]],
                                             !.pre = [x \in DOMAIN @ |-> Box(@[x])],
                                             !.tps = [j \in DOMAIN @ |-> [n |-> @[j].n, v |-> @[j].v, b |-> BoxSeq(@[j].b)]]]
    [] OTHER -> ev
Judgeable(CT, ev) == \A t \in TermsOf(ev) : KnownT(CT, t)
EvBad(CT, ev) ==
  CASE ev.kind = "is_subtype" ->
         \* (a projection is not a type of its own: "out A below out B" is read as containment)
         IF (IF ev.T.k = "W" THEN ContX(CT, Box(ev.S), Box(ev.T), "inv", TRUE) ELSE SubTop(CT, AsType(CT, Box(ev.S)), Box(ev.T))) THEN {}
         ELSE {<<"is_subtype.Sound", IF TextualDiffers(CT, ev.S) \/ TextualDiffers(CT, ev.T) THEN "TextualSupertypes" ELSE "plain">>}
    [] ev.kind = "unify" ->
         IF UnifierOK(CT, Box(ev.t1), Box(ev.t2), [x \in DOMAIN ev.sigma |-> Box(ev.sigma[x])], ev.same) THEN {}
         ELSE {<<"unify.Unifier", IF PolarityClash(ev.t1, ev.t2) THEN "PolarityClash"
                                   \* both are variables and the first one's bound mentions type variables: the code compares the
                                   \* variable-free approximation of that bound (to_type_variable_free), which is not a supertype of it
                                   ELSE IF ev.t1.k = "V" /\ ev.t2.k = "V" /\ ev.t1.a # <<>> /\ FreeVars(ev.t1.a[1]) # {} THEN "ApproximatedVariableBound"
                                   ELSE IF ~ev.same /\ ev.t1.k = "C" /\ ~Ground(ev.t1) THEN "OpenTargetSupertypeMode" ELSE "plain">>}
    \* (the pool of candidate types is the program's, not a controlled one: a projection *inside* a chosen argument was made
    \*  elsewhere - C17 judges those by provenance - so SwitchesDeep is not an EV clause)
    [] ev.kind = "instantiate" -> {b \in BadEvent(CT, BoxEv(ev)) : b[1] # "SwitchesDeep"}
    \* ---- generator scenes (HGenScene) ----
    \* the member found for a wanted type has, under the instantiation chosen for the receiver and the method, a type below the wanted one;
    \* every type parameter of the class and of the method got exactly one argument, none of them primitive
    [] ev.kind = "match" ->
         (IF SubTop(CT, AsType(CT, Box(ev.S)), Box(ev.T)) THEN {} ELSE {<<"match.MemberTyped", "plain">>})
         \cup (IF ev.missing # <<>> THEN {<<"match.OneArgumentPerParameter", "plain">>} ELSE {})
         \cup (IF \E x \in DOMAIN ev.inst : HasKind(ev.inst[x], {"P", "K"}) THEN {<<"match.NoPrimitiveOrBareArgument", "plain">>} ELSE {})
         \* a function's type argument is a type, never a projection
         \cup (IF \E x \in DOMAIN ev.finst : ev.finst[x].k = "W" THEN {<<"match.FunctionTypeArgumentProjected", "plain">>} ELSE {})
    \* after unused type parameters were removed from a function header: the used ones are kept, and no remaining bound mentions a removed one
    [] ev.kind = "prune" ->
         LET names == {ev.after[j].n : j \in DOMAIN ev.after} IN
         (IF \A x \in Rng(ev.used) : x \in names THEN {} ELSE {<<"prune.UsedKept", "plain">>})
         \cup (IF \A j \in DOMAIN ev.after : ev.after[j].b = <<>> \/ FreeVars(ev.after[j].b[1]) \subseteq names THEN {} ELSE {<<"prune.TypeVarsInScope", "plain">>})
    \* a variable offered for a wanted type has a type below it
    [] ev.kind = "pick" -> IF SubTop(CT, AsType(CT, Box(ev.S)), Box(ev.T)) THEN {} ELSE {<<"pick.VariableAssignable", "plain">>}
    [] ev.kind = "compare" -> IF Ops!ComparableOperands(Cases[c].lang, ev.lt, ev.rt) THEN {} ELSE {<<"compare.OperandsComparable", "plain">>}
    [] OTHER -> BadEvent(CT, BoxEv(ev))
EvReport == LET ev == Cases[c].events[e]  CT == Cases[c].ct IN
            IF ~Judgeable(CT, ev) THEN PrintT(ToJson([case |-> Cases[c].id, event |-> e, skipped |-> TRUE, bad |-> {}]))
            ELSE LET b == EvBad(CT, ev) IN b = {} \/ PrintT(ToJson([case |-> Cases[c].id, event |-> e, skipped |-> FALSE, bad |-> b]))
=============================================================================
