-------------------------------- MODULE HArgs --------------------------------
\* The command-line validation of src/args.py as a decision table (growth beyond the listed properties; run with C17, which
\* already covers the wiring of the four generation switches).  A configuration is a record of the facts validate_args looks
\* at; Decision gives the first error (in the order the tool reports them) or "ok".
EXTENDS Naturals, TLC, Json
Config == [seconds : BOOLEAN, iterations : BOOLEAN, name_exists : BOOLEAN, schedule : {"none", "missing", "file"}, transformations : BOOLEAN,
           rerun : BOOLEAN, workers : BOOLEAN, keep_all : BOOLEAN, batch : BOOLEAN, examine : BOOLEAN, replay : BOOLEAN]
Decision(c) ==
  IF c.seconds /\ c.iterations THEN "seconds_and_iterations"
  ELSE IF c.name_exists THEN "name_exists"
  ELSE IF c.schedule # "none" /\ c.transformations THEN "schedule_and_transformations"
  ELSE IF c.schedule = "none" /\ ~c.transformations THEN "neither_schedule_nor_transformations"
  ELSE IF c.schedule = "missing" THEN "schedule_not_a_file"
  ELSE IF c.rerun /\ c.workers THEN "rerun_in_parallel"
  ELSE IF c.rerun /\ ~c.keep_all THEN "rerun_needs_keep_all"
  ELSE IF c.rerun /\ c.batch THEN "rerun_with_batch"
  ELSE IF c.examine /\ ~c.replay THEN "examine_needs_replay"
  ELSE "ok"
\* design sanity: a configuration the tool accepts has exactly one stop condition source at most, one transformation source, ...
AcceptedSane == \A c \in Config : Decision(c) = "ok" =>
   /\ ~(c.seconds /\ c.iterations) /\ ~c.name_exists /\ (c.schedule = "file") # c.transformations
   /\ (c.rerun => ~c.workers /\ c.keep_all /\ ~c.batch) /\ (c.examine => c.replay)
VARIABLE c
Init == c \in Config
Next == UNCHANGED c
Emit == PrintT(ToJson(c))
Sane == AcceptedSane
=============================================================================
