-------------------------------- MODULE HArgs --------------------------------
\* The command-line validation of src/args.py as a decision table (growth beyond the listed properties; run with C17, which
\* already covers the wiring of the four generation switches).  A configuration records *how the user wrote the command line*;
\* Parsed gives the values argparse hands to validate_args (defaults included - the table is about the code as it is, so the
\* defaults are part of it); Decision gives the first error in the order the tool reports them, or "ok".
EXTENDS Naturals, TLC, Json
Tri == {"absent", "zero", "pos"}
Config == [seconds : BOOLEAN, iterations : BOOLEAN, name_exists : BOOLEAN, schedule : {"none", "missing", "file"}, transformations : Tri,
           rerun : BOOLEAN, workers : BOOLEAN, keep_all : BOOLEAN, batch : Tri, examine : BOOLEAN, replay : BOOLEAN]
\* argparse defaults: --transformations 0, --batch 1, everything else None / False
Truthy(x, dflt) == IF x = "absent" THEN dflt ELSE x = "pos"
TransGiven(c) == Truthy(c.transformations, FALSE)   \* default 0
BatchOn(c)    == Truthy(c.batch, TRUE)              \* default 1
Decision(c) ==
  IF c.seconds /\ c.iterations THEN "seconds_and_iterations"
  ELSE IF c.name_exists THEN "name_exists"
  ELSE IF c.schedule # "none" /\ TransGiven(c) THEN "schedule_and_transformations"
  \* deliberate deviation from the documented intent: "neither a schedule nor --transformations" is tested with `is None`,
  \* but the default is 0, so that error is unreachable (NeitherUnreachable below)
  ELSE IF c.schedule = "missing" THEN "schedule_not_a_file"
  ELSE IF c.rerun /\ c.workers THEN "rerun_in_parallel"
  ELSE IF c.rerun /\ ~c.keep_all THEN "rerun_needs_keep_all"
  ELSE IF c.rerun /\ BatchOn(c) THEN "rerun_with_batch"
  ELSE IF c.examine /\ ~c.replay THEN "examine_needs_replay"
  ELSE "ok"
\* design sanity, per configuration (checked by TLC as invariants over all initial states):
\* what an accepted configuration guarantees
AcceptedSane(c) == Decision(c) = "ok" =>
   /\ ~(c.seconds /\ c.iterations) /\ ~c.name_exists /\ ~(c.schedule # "none" /\ TransGiven(c)) /\ c.schedule # "missing"
   /\ (c.rerun => ~c.workers /\ c.keep_all /\ ~BatchOn(c)) /\ (c.examine => c.replay)
\* named consequences of the defaults (design observations; DESIGN.md section 6)
NeitherUnreachable(c) == Decision(c) # "neither_schedule_nor_transformations"
RerunNeedsBatchZero(c) == (c.rerun /\ Decision(c) = "ok") => c.batch = "zero"
VARIABLE c
Init == c \in Config
Next == UNCHANGED c
Emit == PrintT(ToJson(c))
Sane == AcceptedSane(c) /\ NeitherUnreachable(c) /\ RerunNeedsBatchZero(c)
=============================================================================
