------------------------------ MODULE HContext ------------------------------
\* The symbol table of src/ir/context.py as a scoped map (property C16).
\* State: ctx[ns][kind] is an association list (sequence of <<name, value>>)
\* in insertion order; rev maps a declaration value to the namespace it was
\* added in.  Actions are the two primitive steps Add / Remove; the public
\* add_func / add_var / add_class (remove_*) are two primitive steps each
\* (the kind's table and the mirror table "decls"), composed in AddDecl /
\* RemoveDecl.  Queries are operators, written from the statement of C16
\* (innermost enclosing namespace wins, shadowing along the path, global
\* queries follow declared functions and classes), not from the code.
EXTENDS Naturals, Sequences, FiniteSets

CONSTANTS NSs,      \* the namespaces of the model: a prefix-closed set of non-empty sequences of names
          Values    \* declaration values (opaque)

Kinds    == {"types", "funcs", "lambdas", "vars", "classes"}
Mirrored == {"funcs", "vars", "classes"}          \* kinds that are also recorded in declaration order under "decls"
AllKinds == Kinds \cup {"decls"}
None     == "none"

VARIABLES ctx, rev
vars == <<ctx, rev>>

\* ---- association lists -------------------------------------------------
Has(al, n) == \E j \in DOMAIN al : al[j][1] = n
Get(al, n) == al[CHOOSE j \in DOMAIN al : al[j][1] = n][2]
Put(al, n, v) == IF Has(al, n) THEN [j \in DOMAIN al |-> IF al[j][1] = n THEN <<n, v>> ELSE al[j]]   \* re-adding keeps the position
                 ELSE Append(al, <<n, v>>)
Del(al, n) == SelectSeq(al, LAMBDA x : x[1] # n)
NamesOf(al) == {al[j][1] : j \in DOMAIN al}
RECURSIVE Merge(_, _)
Merge(base, over) == IF over = <<>> THEN base ELSE Merge(Put(base, over[1][1], over[1][2]), Tail(over))   \* over shadows base

EmptyNS == [k \in AllKinds |-> <<>>]
Prefix(ns, j) == SubSeq(ns, 1, j)
IsPrefix(p, ns) == Len(p) <= Len(ns) /\ SubSeq(ns, 1, Len(p)) = p

TypeOK == /\ ctx \in [NSs -> [AllKinds -> Seq(Seq(STRING))]]
          /\ DOMAIN rev \subseteq Values

Init == /\ ctx = [ns \in NSs |-> EmptyNS]
        /\ rev = [v \in {} |-> <<>>]

\* ---- primitive steps ----------------------------------------------------
Add(ns, k, n, v) ==
  /\ ctx' = [ctx EXCEPT ![ns][k] = Put(@, n, v)]
  /\ rev' = [x \in DOMAIN rev \cup {v} |-> IF x = v THEN ns ELSE rev[x]]

Remove(ns, k, n) ==
  /\ ctx' = [ctx EXCEPT ![ns][k] = Del(@, n)]
  /\ rev' = IF Has(ctx[ns][k], n)
            THEN [x \in DOMAIN rev \ {Get(ctx[ns][k], n)} |-> rev[x]]
            ELSE rev

\* ---- public steps (what the generator calls) ------------------------------
AddDecl(ns, k, n, v) ==
  IF k \in Mirrored THEN Add(ns, k, n, v) \cdot Add(ns, "decls", n, v) ELSE Add(ns, k, n, v)
RemoveDecl(ns, k, n) ==
  IF k \in Mirrored THEN Remove(ns, k, n) \cdot Remove(ns, "decls", n) ELSE Remove(ns, k, n)

\* the same as pure functions of the state (used by trace validation, where \cdot is inconvenient)
CtxAfterAdd(c, ns, k, n, v) ==
  LET c1 == [c EXCEPT ![ns][k] = Put(@, n, v)] IN
  IF k \in Mirrored THEN [c1 EXCEPT ![ns]["decls"] = Put(@, n, v)] ELSE c1
RevAfterAdd(r, ns, v) == [x \in DOMAIN r \cup {v} |-> IF x = v THEN ns ELSE r[x]]
CtxAfterRemove(c, ns, k, n) ==
  LET c1 == [c EXCEPT ![ns][k] = Del(@, n)] IN
  IF k \in Mirrored THEN [c1 EXCEPT ![ns]["decls"] = Del(@, n)] ELSE c1
RevAfterRemove(c, r, ns, k, n) ==
  LET gone == (IF Has(c[ns][k], n) THEN {Get(c[ns][k], n)} ELSE {})
              \cup (IF k \in Mirrored /\ Has(c[ns]["decls"], n) THEN {Get(c[ns]["decls"], n)} ELSE {})
  IN [x \in DOMAIN r \ gone |-> r[x]]

\* ---- queries --------------------------------------------------------------
\* outward name resolution from ns, not leaving `limit` (a prefix of ns; <<>> = no limit):
\* the innermost enclosing namespace that declares n wins
LookupLimit(c, ns, n, limit) ==
  LET lo   == IF limit = <<>> THEN 1 ELSE Len(limit)
      hits == {j \in lo..Len(ns) : Has(c[Prefix(ns, j)]["decls"], n)} IN
  IF hits = {} \/ ~IsPrefix(limit, ns) THEN <<>>
  ELSE LET j == CHOOSE j \in hits : \A h \in hits : h <= j IN <<Prefix(ns, j), Get(c[Prefix(ns, j)]["decls"], n)>>
Lookup(c, ns, n) == LookupLimit(c, ns, n, <<>>)

Current(c, ns, k) == c[ns][k]

RECURSIVE EnclosingUpTo(_, _, _, _)
EnclosingUpTo(c, ns, k, j) == IF j = 0 THEN <<>> ELSE Merge(EnclosingUpTo(c, ns, k, j - 1), c[Prefix(ns, j)][k])
Enclosing(c, ns, k) == EnclosingUpTo(c, ns, k, Len(ns))

\* namespaces opened by the functions and classes declared in ns
Children(c, ns) == {Append(ns, n) : n \in NamesOf(c[ns]["funcs"]) \cup NamesOf(c[ns]["classes"])}
RECURSIVE ReachNS(_, _)
ReachNS(c, S) == LET S2 == S \cup UNION {Children(c, ns) \cap NSs : ns \in S} IN IF S2 = S THEN S ELSE ReachNS(c, S2)
GlobNS(c, root) == ReachNS(c, {root})
\* a global query result (association list) is acceptable iff it has exactly the names declared in some reachable
\* namespace, each once, each bound to a value some reachable namespace gives it (which one wins is left open)
GlobOK(c, root, k, res) ==
  LET R == GlobNS(c, root) IN
  /\ NamesOf(res) = UNION {NamesOf(c[ns][k]) : ns \in R}
  /\ Len(res) = Cardinality(NamesOf(res))
  /\ \A j \in DOMAIN res : \E ns \in R : Has(c[ns][k], res[j][1]) /\ Get(c[ns][k], res[j][1]) = res[j][2]
\* every occurrence of name n of kind k in a reachable namespace, with the namespace it opens
NamespacesDecls(c, root, k, n) == {<<Append(ns, n), Get(c[ns][k], n)>> : ns \in {m \in GlobNS(c, root) : Has(c[m][k], n)}}

Rev(r, v) == IF v \in DOMAIN r THEN r[v] ELSE <<>>

\* ---- invariants of the design (MC_HContext) ----------------------------------
\* decls mirrors funcs/vars/classes when names are not shared between mirrored kinds
MirrorInv == \A ns \in NSs : NamesOf(ctx[ns]["decls"]) = UNION {NamesOf(ctx[ns][k]) : k \in Mirrored}
\* every value currently held in some table has a reverse entry naming that namespace (values belong to one namespace);
\* the converse does not hold: an overwritten declaration keeps its reverse entry, it was never removed
RevInv == \A ns \in NSs : \A k \in AllKinds : \A j \in DOMAIN ctx[ns][k] :
            LET v == ctx[ns][k][j][2] IN v \in DOMAIN rev /\ rev[v] = ns
\* enclosing = enclosing(parent) shadowed by current
EnclosingInv == \A ns \in NSs : \A k \in AllKinds :
   Len(ns) > 1 => Enclosing(ctx, ns, k) = Merge(Enclosing(ctx, Prefix(ns, Len(ns) - 1), k), Current(ctx, ns, k))
\* lookup agrees with the enclosing view of "decls"
LookupInv == \A ns \in NSs : \A n \in UNION {NamesOf(ctx[m]["decls"]) : m \in NSs} :
   LET l == Lookup(ctx, ns, n) IN
   IF Has(Enclosing(ctx, ns, "decls"), n) THEN l # <<>> /\ l[2] = Get(Enclosing(ctx, ns, "decls"), n) /\ IsPrefix(l[1], ns)
   ELSE l = <<>>
NoDupNames == \A ns \in NSs : \A k \in AllKinds : Len(ctx[ns][k]) = Cardinality(NamesOf(ctx[ns][k]))
=============================================================================
