------------------------------ MODULE HOperands ------------------------------
\* Families of built-in types whose values can be compared with < > <= >= ("?" : not a plain class type - a pending or union type).
\* Operands of a comparison come from one family of comparable built-ins (numbers with numbers, strings with strings, ...),
\* those of a logical connective are Booleans.   Used by HTyping (program walk) and HEvTrace (generator scenes).
\* On the JVM languages (Java, Groovy) char is an integral type: it is compared with numbers (binary numeric promotion, after unboxing).
Family(lang, t) == IF t.k \notin {"C", "P"} \/ t.a # <<>> THEN "?"
             ELSE IF t.n \in {"Int", "Byte", "Short", "Long", "Float", "Double", "Number", "BigDecimal", "BigInteger"} THEN "num"
             ELSE IF t.n = "String" THEN "str" ELSE IF t.n = "Boolean" THEN "bool"
             ELSE IF t.n = "Char" THEN (IF lang \in {"java", "groovy"} THEN "num" ELSE "char") ELSE "other"
ComparableOperands(lang, l, r) == Family(lang, l) = "?" \/ Family(lang, r) = "?" \/ (Family(lang, l) = Family(lang, r) /\ Family(lang, l) # "other")
BooleanOperands(lang, l, r) == Family(lang, l) = "?" \/ Family(lang, r) = "?" \/ (Family(lang, l) = "bool" /\ Family(lang, r) = "bool")
=============================================================================
