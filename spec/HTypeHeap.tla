------------------------------ MODULE HTypeHeap ------------------------------
\* Shared type objects under a history of instantiations and substitutions (property C07).
\*
\* State: `results` - the terms returned so far, in order; `snap` - a structural snapshot (opaque value) of every tracked
\* object: class definitions, argument objects handed to operations, and every earlier result including the supertypes
\* cached inside it; `answers` - subtype answers given so far.  Each operation of the code is one action; its
\* postcondition says what the new result must be (textual substitution, as the statement of C07 defines it) and the
\* frame condition Immutable says that nothing that existed before the step has changed.
EXTENDS HTypes

SelfType(CT, c) == Cls(c, [i \in DOMAIN CT[c].tp |-> Var(CT[c].tp[i].n, CT[c].tp[i].b)])
\* projections with a bound replaced by that bound (nested projections unwrapped), other arguments kept
RECURSIVE Core(_)
Core(a) == IF a.k = "W" /\ a.a # <<>> THEN Core(a.a[1]) ELSE a
VarianceFree(t) == Cls(t.n, [i \in DOMAIN t.a |-> Core(t.a[i])])
Opaque == [k |-> "O", n |-> "opaque", a |-> <<>>]

\* expected result of each operation, as a function of the results so far
Expected(CT, results, o) ==
  CASE o.op = "new"    -> Cls(o.c, o.args)
    [] o.op = "given"  -> o.args[1]          \* (EV) a term the generator handed to an operation
    [] o.op = "self"   -> SelfType(CT, o.c)
    [] o.op = "renew"  -> Cls(results[o.r].n, o.args)
    [] o.op = "subst"  -> Subst(results[o.r], o.sigma)
    [] o.op = "tovf"   -> VarianceFree(results[o.r])
    [] o.op = "totvf"  -> Opaque
    [] o.op = "issub"  -> Opaque

\* postconditions
ResultOK(CT, results, o, res) == LET e == Expected(CT, results, o) IN e = Opaque \/ res = e
\* C07: supertypes of a variable-free instantiation
\* (lenient = EV against the finished program's table: a type made while its class was being built carries fewer supertypes)
SupersOK(CT, results, o, resSupers, lenient) ==
  LET e == Expected(CT, results, o) IN
  (e # Opaque /\ e.k = "C" /\ Ground(e) /\ o.op # "given") =>
     IF lenient THEN (e.n \in DOMAIN CT /\ Len(CT[e.n].tp) = Len(e.a)) => resSupers \subseteq SupersTextual(CT, e)
     ELSE resSupers = SupersTextual(CT, e)
\* substituting with the empty map returns an equal type; ground images for all variables leave no variable
SubstLaws(results, o, res) ==
  o.op = "subst" => /\ (DOMAIN o.sigma = {} => res = results[o.r])
                    /\ ((FreeVars(results[o.r]) \subseteq DOMAIN o.sigma /\ \A x \in DOMAIN o.sigma : Ground(o.sigma[x])) => ~HasKind(res, {"V"}))
TVFreeOK(o, res) == o.op = "totvf" => ~HasKind(res, {"V"})
=============================================================================
