----------------------------- MODULE HDriverGen -----------------------------
\* G step of C15: whole-session scenarios - the outcome of every program and the compiler's behaviour on every batch.
\* Exhaustive for small sessions (INIT InitAll), random for longer ones (-simulate on Grow).
EXTENDS HDriver, TLC, Json
VARIABLES sc, done
AllOutcomes == Outcome
InitAll == Init /\ sc \in [outs : [Pids -> AllOutcomes], crashes : [1..NBatches -> BOOLEAN]] /\ done = FALSE
Emit == PrintT(ToJson([n |-> NProgs, batch |-> BatchSize, pool |-> Pool, outs |-> sc.outs, crashes |-> sc.crashes]))
NextNone == UNCHANGED <<vars, sc, done>>
\* random scenarios: one behaviour = one scenario, built program by program
InitEmpty == Init /\ sc = [outs |-> <<>>, crashes |-> <<>>] /\ done = FALSE
GrowSc ==
        \/ /\ Len(sc.outs) < NProgs /\ ~done
           /\ \E o \in AllOutcomes : sc' = [sc EXCEPT !.outs = Append(@, o)] /\ done' = done
        \/ /\ Len(sc.outs) = NProgs /\ Len(sc.crashes) < NBatches /\ ~done
           /\ \E c \in BOOLEAN : sc' = [sc EXCEPT !.crashes = Append(@, c)] /\ done' = done
        \/ /\ Len(sc.outs) = NProgs /\ Len(sc.crashes) = NBatches /\ ~done /\ done' = TRUE /\ UNCHANGED sc
           /\ Emit
Grow == UNCHANGED vars /\ GrowSc
=============================================================================
