----------------------------- MODULE HReplayTrace -----------------------------
EXTENDS HReplay, IOUtils
Cases == JsonDeserialize(IOEnv.TRACE_FILE).cases
VARIABLES t, l
TInit == t \in DOMAIN Cases /\ l = 0 /\ stage = Cases[t].stage /\ ops = <<>> /\ done = FALSE
TNext == /\ l < Len(Cases[t].steps) /\ l' = l + 1 /\ t' = t
         /\ ops' = Append(ops, Cases[t].steps[l + 1].op) /\ UNCHANGED <<stage, done>>
Report == l = 0 \/ LET s == Cases[t].steps[l] IN
          \/ (Faithful(s.orig, s.loaded) /\ s.exc = "")
          \/ PrintT(ToJson([case |-> Cases[t].id, step |-> l, bad |-> IF s.exc # "" THEN "NoException" ELSE "Faithful." \o s.op]))
=============================================================================
