------------------------------ MODULE HGenScene ------------------------------
\* Generator scenes (GEV at the interface between src/generators/generator.py and src/ir/type_utils.py): TLC enumerates small
\* symbol-table contents and requests; the harness builds a real Generator over a real Context holding exactly those declarations
\* and calls the generator's own entry points; every helper call they issue, and their result, is validated by HEvTrace.
\*   match    : class Foo<ctp> with one member (a field, or a method with type parameters mtp) of type mty;
\*              Generator._get_matching_class(want, subtype, 'fields' | 'functions')  - the receiver type, the instantiation of class
\*              and method type parameters (C08: one argument each, within bounds, no primitive, projections only where allowed) and
\*              the member's type under that instantiation (C01: below the wanted type)
\*   prune    : a generic function header <tps> f(params): ret ; Generator._remove_unused_type_params  (C05: every type variable
\*              that is still mentioned - in the signature or in a remaining bound - is still declared)
\*   compare  : Generator.gen_comparison_expr()  - the operand types requested for the two sides (C01: comparable families)
EXTENDS Naturals, Sequences, FiniteSets, TLC, Json
VARIABLE s
C(n, a) == [k |-> "C", n |-> n, a |-> a]
V(n, b) == [k |-> "V", n |-> n, a |-> b]
TP(n, v, b) == [n |-> n, v |-> v, b |-> b]
Str == C("String", <<>>)   IntT == C("Int", <<>>)   Num == C("Number", <<>>)
vT == V("T", <<>>)   vU == V("U", <<>>)   vX == V("X", <<>>)
CTPs == [none |-> <<>>, T |-> <<TP("T", "inv", <<>>)>>, TNum |-> <<TP("T", "inv", <<Num>>)>>, TU |-> <<TP("T", "inv", <<>>), TP("U", "inv", <<>>)>>]
MTPs == [none |-> <<>>, X |-> <<TP("X", "inv", <<>>)>>, XNum |-> <<TP("X", "inv", <<Num>>)>>, XT |-> <<TP("X", "inv", <<vT>>)>>]
MTy  == [String |-> Str, Int |-> IntT, T |-> vT, X |-> vX, FooT |-> C("Foo", <<vT>>)]
MatchScenes == {m \in [kind : {"match"}, ctp : DOMAIN CTPs, mtp : DOMAIN MTPs, member : {"fun", "field"}, mty : DOMAIN MTy,
                       want : {"String", "Int", "Number"}, subtype : BOOLEAN] :
                  /\ (m.member = "field" => m.mtp = "none")
                  /\ (m.mty \in {"T", "FooT"} => m.ctp # "none")
                  /\ (m.mty = "FooT" => m.ctp \in {"T", "TNum"})
                  /\ (m.mty = "X" => m.mtp # "none")
                  /\ (m.mtp = "XT" => m.ctp # "none")}
\* function headers: type parameters F_A, F_B, F_C with bounds that are plain, a variable, or a generic type over a variable
fA == V("F_A", <<>>)   fB == V("F_B", <<>>)
Bounds == [none |-> <<>>, Num |-> <<Num>>, A |-> <<fA>>, FooA |-> <<C("Foo", <<fA>>)>>, B |-> <<fB>>, FooB |-> <<C("Foo", <<fB>>)>>]
PruneScenes == {p \in [kind : {"prune"}, bA : {"none", "Num"}, bB : {"none", "Num", "A", "FooA"}, bC : {"none", "A", "B", "FooA", "FooB"},
                       used : SUBSET {"F_A", "F_B", "F_C"}, ret : {"F_A", "F_B", "F_C", "String", "FooC"}] : TRUE}
PruneTps(p) == <<TP("F_A", "inv", Bounds[p.bA]), TP("F_B", "inv", Bounds[p.bB]), TP("F_C", "inv", Bounds[p.bC])>>
CompareScenes == {[kind |-> "compare"]}
\*   pick     : class Sink<v T> and a function test(x: Sink<ax>, y: Sink<ay>); inside test, Generator.gen_variable(Sink<w>, only_leaves, subtype)
\*              - a variable the generator offers for a wanted type has a type below it (C01; the generator's use of the subtype relation
\*              under declaration-site variance combined with use-site projections)
W(v, t) == [k |-> "W", n |-> v, a |-> <<t>>]
SinkArgs == [Int |-> IntT, Num |-> Num, outInt |-> W("out", IntT), outNum |-> W("out", Num), inInt |-> W("in", IntT), inNum |-> W("in", Num)]
Fits(v, a) == v = "inv" \/ a \in {"Int", "Num"} \/ (v = "out" /\ a \in {"outInt", "outNum"}) \/ (v = "in" /\ a \in {"inInt", "inNum"})
PickScenes == {q \in [kind : {"pick"}, v : {"inv", "out", "in"}, ax : DOMAIN SinkArgs, ay : DOMAIN SinkArgs, w : DOMAIN SinkArgs] :
                 Fits(q.v, q.ax) /\ Fits(q.v, q.ay) /\ Fits(q.v, q.w) /\ q.ax # q.ay}
Init == s \in MatchScenes \cup PruneScenes \cup CompareScenes \cup PickScenes
Next == UNCHANGED s
Emit == PrintT(ToJson(IF s.kind = "match" THEN [id |-> s, ctps |-> CTPs[s.ctp], mtps |-> MTPs[s.mtp], mty |-> MTy[s.mty]]
                      ELSE IF s.kind = "prune" THEN [id |-> s, tps |-> PruneTps(s)]
                      ELSE IF s.kind = "pick" THEN [id |-> s, ax |-> SinkArgs[s.ax], ay |-> SinkArgs[s.ay], w |-> SinkArgs[s.w]] ELSE [id |-> s]))
=============================================================================
