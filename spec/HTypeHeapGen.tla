---------------------------- MODULE HTypeHeapGen ----------------------------
\* G step of C07: histories of operations on one shared set of declarations.
EXTENDS HTypeHeap, TLC, Json
CONSTANTS MaxLen, TableId
VARIABLES results, hist, done

Num == Cls("Number", <<>>)
IntT == Cls("Int", <<>>)
Str == Cls("String", <<>>)
TP(n, v, b) == [n |-> n, v |-> v, b |-> b]
tT == Var("T", <<>>)
\* Z<T>;  Y<T>;  X<T> : Y<Z<T>>;  W<T, U : Y<T>> : X<U>, Z<T>;  P<T> : Y<out T>       (table 2: Y<out T>, Z<in T>, W<T, out U : Y<T>>)
Table(id) ==
  LET vY == IF id = 2 THEN "out" ELSE "inv"  vZ == IF id = 2 THEN "in" ELSE "inv" IN
  [Any    |-> [tp |-> <<>>, sup |-> <<>>],
   Number |-> [tp |-> <<>>, sup |-> <<TopT>>],
   Int    |-> [tp |-> <<>>, sup |-> <<Num>>],
   String |-> [tp |-> <<>>, sup |-> <<TopT>>],
   Z      |-> [tp |-> <<TP("T", vZ, <<>>)>>, sup |-> <<>>],
   Y      |-> [tp |-> <<TP("T", vY, <<>>)>>, sup |-> <<>>],
   X      |-> [tp |-> <<TP("T", "inv", <<>>)>>, sup |-> <<Cls("Y", <<Cls("Z", <<tT>>)>>)>>],
   W      |-> [tp |-> <<TP("T", "inv", <<>>), TP("U", IF id = 2 THEN "out" ELSE "inv", <<Cls("Y", <<tT>>)>>)>>,
               sup |-> <<Cls("X", <<Var("U", <<Cls("Y", <<tT>>)>>)>>), Cls("Z", <<tT>>)>>],
   P      |-> [tp |-> <<TP("T", "inv", <<>>)>>, sup |-> <<Cls("Y", <<Wild("out", <<tT>>)>>)>>]]
Order == <<"Z", "Y", "X", "W", "P">>
CT == Table(TableId)
Generic == {"Z", "Y", "X", "W", "P"}

G0 == {IntT, Str, Num}
Arg1 == G0 \cup {Wild("out", <<Num>>), Wild("in", <<IntT>>), Star, Cls("Z", <<IntT>>), Cls("Y", <<Str>>), Cls("Z", <<Wild("out", <<Num>>)>>), Cls("X", <<IntT>>)}
ArgsFor(c) == IF c = "W" THEN {<<t, Cls("Y", <<t>>)>> : t \in G0} \cup {<<IntT, Cls("P", <<IntT>>)>>, <<Str, Wild("out", <<Cls("Y", <<Str>>)>>)>>}
              ELSE {<<a>> : a \in Arg1}
Sigmas(t) == LET fv == FreeVars(t) IN
             {[x \in {} |-> IntT]} \cup [fv -> {IntT, Cls("Z", <<Str>>)}] \cup (IF "T" \in fv THEN {[x \in {"T"} |-> Num]} ELSE {})

Live == {r \in DOMAIN results : results[r] # Opaque}
Op(o) == /\ hist' = Append(hist, o) /\ done' = done
         /\ results' = Append(results, Expected(CT, results, o))
Base == [op |-> "", c |-> "", args |-> <<>>, r |-> 0, r2 |-> 0, sigma |-> [x \in {} |-> IntT]]
GNew   == \E c \in Generic : \E a \in ArgsFor(c) : Op([Base EXCEPT !.op = "new", !.c = c, !.args = a])
GSelf  == \E c \in Generic : Op([Base EXCEPT !.op = "self", !.c = c])
GRenew == \E r \in Live : results[r].k = "C" /\ results[r].n \in Generic /\
              \E a \in ArgsFor(results[r].n) : Op([Base EXCEPT !.op = "renew", !.r = r, !.args = a])
GSubst == \E r \in Live : \E s \in Sigmas(results[r]) : Op([Base EXCEPT !.op = "subst", !.r = r, !.sigma = s])
GToVF  == \E r \in Live : results[r].n \in Generic /\ Op([Base EXCEPT !.op = "tovf", !.r = r])
GToTVF == \E r \in Live : results[r].n \in Generic /\ Op([Base EXCEPT !.op = "totvf", !.r = r])
GIsSub == \E r \in Live, r2 \in Live : Ground(results[r]) /\ Ground(results[r2]) /\ Op([Base EXCEPT !.op = "issub", !.r = r, !.r2 = r2])
GInit == results = <<>> /\ hist = <<>> /\ done = FALSE
\* a complete history takes exactly one more step, Finish, which prints it: one line per history both in exhaustive mode
\* and in -simulate mode (where constraints would be evaluated on every candidate successor)
Finish == /\ Len(hist) = MaxLen /\ ~done /\ done' = TRUE /\ UNCHANGED <<results, hist>>
          /\ PrintT(ToJson([table |-> TableId, ct |-> CT, order |-> Order, hist |-> hist]))
GNext == \/ Len(hist) < MaxLen /\ (GNew \/ GSelf \/ GRenew \/ GSubst \/ GToVF \/ GToTVF \/ GIsSub)
         \/ Finish
=============================================================================
