------------------------------ MODULE HExprGen ------------------------------
\* G step of the expression part of C12 ("every literal and operator of the program appears"): every binary expression
\*   val res = (L op R)      L, R \in OperandKinds,  op \in Ops
\* over a fixed set of declarations (class Bx(val fld: Int), fun fn(p: Int): Int, val v0, v1) is built as a real program, translated by
\* the four real translators, and its text is judged by HInventory / HSurface like that of a generated program: the literals,
\* parameters, string constants and the operator of *both* operands must appear.
EXTENDS TLC, Json
VARIABLE e
OperandKinds == {"int", "real", "str", "var", "lambda", "funref", "new", "call", "field", "cond", "bool", "char"}
Ops == {"==", "!=", "&&", "||", ">", "<="}
\* nested shapes (thorough tier):  ((L op M) op2 R)  and  (L op (M op2 R))  over a smaller alphabet
CONSTANT Nested
SmallKinds == {"int", "str", "var", "lambda", "funref", "call"}
SmallOps == {"==", "&&", "<="}
Init == \/ e \in [l : OperandKinds, r : OperandKinds, op : Ops]
        \/ Nested /\ e \in [l : SmallKinds, m : SmallKinds, r : SmallKinds, op : SmallOps, op2 : SmallOps, nest : {"left", "right"}]
Next == UNCHANGED e
Emit == PrintT(ToJson(e))
=============================================================================
