------------------------------ MODULE HPipeline ------------------------------
\* One iteration of the driver for one program id (hephaestus.py: gen_program, process_cp_transformations,
\* process_ncp_transformations; src/modules/processor.py: ProgramProcessor) - growth beyond the listed properties, run with C15.
\* The program object is mutated in place by every transformation that reports is_transformed; `marks` is the set of
\* mutations it carries (k for the k-th scheduled correctness-preserving step, Fault for the injected one).  A file is what was
\* written under a path: the marks of the translated text, the marks of the pickled program next to it, and the package clause.
\* One action per step of the code; an exception anywhere ends the iteration with a failed result (files written so far stay).
EXTENDS Naturals, Sequences, FiniteSets, TLC, Json
MaxN == 3
Fault == 99
\* what scheduled step k does to the program: nothing ("no"), a change that shows in the translation ("vis"), or one that does not
\* ("sil": e.g. an erasure the Java translator hides by printing the recorded type) - the pickled program must carry it all the same
Effects == {"no", "vis", "sil"}
Scenario == UNION {[n : {n}, tr : [1..n -> Effects], raiseAt : 0..n, genRaises : BOOLEAN, inj : {"none", "ok", "raise"},
                    keepAll : BOOLEAN, onlyCP : BOOLEAN] : n \in 0..MaxN}
VARIABLES sc,      \* the scenario (what the generator / the transformations do)
          pc, cur, \* control point; ProgramProcessor.current_transformation
          marks,   \* mutations carried by the program object
          pkg,     \* package of the live translator (0: pass package, 1: fail package)
          files,   \* path |-> [text, bin, pkg]
          res      \* the ProgramRes returned
vars == <<sc, pc, cur, marks, pkg, files, res>>
NoRes == [failed |-> FALSE, ntrans |-> 0, error |-> "", programs |-> {}]
Init == sc \in Scenario /\ pc = "generate" /\ cur = 0 /\ marks = {} /\ pkg = 0 /\ files = [p \in {} |-> 0] /\ res = NoRes
Visible(ms) == {k \in ms : k = Fault \/ sc.tr[k] = "vis"}
Put(f, path) == [p \in DOMAIN f \cup {path} |-> IF p = path THEN [text |-> Visible(marks'), bin |-> marks', pkg |-> pkg'] ELSE f[p]]
Min(a, b) == IF a < b THEN a ELSE b
\* except Exception in gen_program: transformations = schedule[:current_transformation]
Fail(msg) == /\ pc' = "done" /\ res' = [failed |-> TRUE, ntrans |-> Min(cur, sc.n), error |-> msg, programs |-> {}]
             /\ UNCHANGED <<sc, cur, marks, pkg, files>>
Generate ==
  /\ pc = "generate"
  /\ IF sc.genRaises THEN Fail("generator")
     ELSE /\ pc' = "cp" /\ UNCHANGED <<sc, cur, marks, pkg, res>>
          /\ files' = IF sc.keepAll THEN Put(files, "generator/Main") ELSE files         \* the initial program
\* one scheduled correctness-preserving transformation (transform_program)
Transform ==
  /\ pc = "cp" /\ cur < sc.n
  /\ LET k == cur + 1 IN
     IF sc.raiseAt = k THEN Fail("step")
     ELSE /\ cur' = k /\ UNCHANGED <<sc, pc, pkg, res>>
          /\ marks' = IF sc.tr[k] # "no" THEN marks \cup {k} ELSE marks
          /\ files' = IF sc.tr[k] # "no" /\ sc.keepAll THEN Put(files, "transformations/" \o ToString(k - 1)) ELSE files
\* the program after the schedule is the well-typed test case: batch directory and <bugs>/tmp/<pid>
SaveCorrect ==
  /\ pc = "cp" /\ cur = sc.n
  /\ UNCHANGED <<sc, cur, marks, pkg>>
  /\ files' = Put(Put(files, "batch/p0"), "tmp/Main")
  /\ IF sc.onlyCP THEN /\ pc' = "done"
                       /\ res' = [failed |-> FALSE, ntrans |-> sc.n, error |-> "", programs |-> {<<"batch/p0", TRUE>>}]
     ELSE pc' = "ncp" /\ UNCHANGED res
\* fault injection on the same object, translator re-targeted to the second package
Inject ==
  /\ pc = "ncp"
  /\ IF sc.inj = "raise" THEN /\ pkg' = 1 /\ pc' = "done" /\ UNCHANGED <<sc, cur, marks, files>>
                              /\ res' = [failed |-> TRUE, ntrans |-> sc.n, error |-> "inject", programs |-> {}]
     ELSE /\ pkg' = 1 /\ cur' = cur + 1 /\ pc' = "done" /\ UNCHANGED sc
          /\ marks' = IF sc.inj = "ok" THEN marks \cup {Fault} ELSE marks
          /\ files' = IF sc.inj = "ok"
                      THEN Put(Put(IF sc.keepAll THEN Put(files, "generator/Incorrect") ELSE files, "batch/p1"), "tmp/Incorrect")
                      ELSE files
          /\ res' = [failed |-> FALSE, ntrans |-> sc.n, error |-> IF sc.inj = "ok" THEN "injected" ELSE "",
                     programs |-> {<<"batch/p0", TRUE>>} \cup (IF sc.inj = "ok" THEN {<<"batch/p1", FALSE>>} ELSE {})]
Next == Generate \/ Transform \/ SaveCorrect \/ Inject
Spec == Init /\ [][Next]_vars /\ WF_vars(Next)

\* ---- design properties ------------------------------------------------------------------------------------------------------
Has(p) == p \in DOMAIN files
CPMarks == {k \in 1..sc.n : sc.tr[k] = "vis"}
Done == pc = "done"
\* the file compiled as "must be accepted" never carries the injected fault and carries every effective scheduled step
PassIsFinal == (Done /\ ~res.failed) => (Has("batch/p0") /\ files["batch/p0"].text = CPMarks /\ files["batch/p0"].pkg = 0 /\ files["tmp/Main"] = files["batch/p0"])
PassNeverFaulty == \A p \in DOMAIN files : files[p].pkg = 0 => Fault \notin files[p].text
\* the file compiled as "must be rejected" exists exactly when the result says so, is the pass program plus the fault, in the other package
FailIsFaulty == (Done /\ ~res.failed) =>
   /\ (Has("batch/p1") <=> <<"batch/p1", FALSE>> \in res.programs)
   /\ (Has("batch/p1") => files["batch/p1"].text = CPMarks \cup {Fault} /\ files["batch/p1"].pkg = 1 /\ files["tmp/Incorrect"] = files["batch/p1"])
   /\ (sc.onlyCP => ~Has("batch/p1"))
\* text and pickled program written under one path describe the same program
TextIsBin == \A p \in DOMAIN files : files[p].text = Visible(files[p].bin)
\* --keep-all keeps the program after every effective step under its 0-based step number, and nothing is kept without it
KeepAll == Done =>
   /\ (~sc.keepAll => DOMAIN files \subseteq {"batch/p0", "batch/p1", "tmp/Main", "tmp/Incorrect"})
   /\ (sc.keepAll /\ ~res.failed => \A k \in 1..sc.n : (Has("transformations/" \o ToString(k - 1)) <=> sc.tr[k] # "no"))
   /\ \A k \in 1..sc.n : Has("transformations/" \o ToString(k - 1)) => files["transformations/" \o ToString(k - 1)].bin = {j \in 1..k : sc.tr[j] # "no"}
\* a failed iteration reports no program
FailedReportsNothing == (Done /\ res.failed) => res.programs = {}
Terminates == <>Done
\* ---- G: one line per scenario with the model's final state -----------------------------------------------------------------
FilesAsSet == {[path |-> p, text |-> files[p].text, bin |-> files[p].bin, pkg |-> files[p].pkg] : p \in DOMAIN files}
Emit == Done => PrintT(ToJson([sc |-> sc]))
=============================================================================
