---------------------------- MODULE HSwitchesTrace ----------------------------
EXTENDS HSwitches, TLC, Json, IOUtils
Progs == JsonDeserialize(IOEnv.TRACE_FILE).programs
VARIABLE c
Init == c \in DOMAIN Progs
Next == UNCHANGED c
ToSet(s) == {s[j] : j \in DOMAIN s}
Report == LET p == Progs[c]  b == SwitchBad(p.lang, p.sw, ToSet(p.occ), ToSet(p.tparams)) IN
          b = {} \/ PrintT(ToJson([prog |-> p.id, n |-> Cardinality(b),
                                   bad |-> {CHOOSE x \in {y \in b : y[1] = k[1] /\ y[2].prov = k[2]} : TRUE :
                                              k \in {<<y[1], y[2].prov>> : y \in b}}]))
=============================================================================
