------------------------------- MODULE HGraph -------------------------------
(***************************************************************************)
(* Directed-graph queries of src/graph_utils.py, stated from their textbook *)
(* definitions (property C19).  A graph is a function from vertices to the  *)
(* set of their successors; nothing here follows the implementation's BFS / *)
(* DFS / path enumeration.                                                  *)
(***************************************************************************)
EXTENDS Naturals, Sequences, FiniteSets

ToSet(s) == {s[j] : j \in DOMAIN s}

\* g : [V -> SUBSET V]
Vertices(g) == DOMAIN g
Succ(g, x) == g[x]
Pred(g, x) == {y \in DOMAIN g : x \in g[y]}

RECURSIVE Closure(_, _)
Closure(g, S) == LET S2 == S \cup UNION {Succ(g, x) : x \in S} IN IF S2 = S THEN S ELSE Closure(g, S2)

\* reflexive-transitive reachability
ReachSet(g, u) == Closure(g, {u})
Reach(g, u, v) == v \in ReachSet(g, u)
BiReach(g, u, v) == Reach(g, u, v) \/ Reach(g, v, u)
BiReachSet(g, u) == {v \in DOMAIN g : BiReach(g, u, v)}

\* weak connectivity: reachability in the underlying undirected graph
Und(g) == [x \in DOMAIN g |-> Succ(g, x) \cup Pred(g, x)]
ConnSet(g, u) == Closure(Und(g), {u})
WeakConn(g, u, v) == v \in ConnSet(g, u)

\* vertices without any incoming edge (a self-loop is an incoming edge) from which v can be reached
Sources(g, v) == {s \in DOMAIN g : Pred(g, s) = {} /\ Reach(g, s, v)}

\* all simple paths (no repeated vertex) starting with `path`
RECURSIVE Paths(_, _)
Paths(g, path) == {path} \cup UNION {Paths(g, Append(path, w)) : w \in Succ(g, path[Len(path)]) \ ToSet(path)}
SimplePaths(g, u) == Paths(g, <<u>>)

IsProperPrefix(a, b) == Len(a) < Len(b) /\ SubSeq(b, 1, Len(a)) = a
\* the simple paths from u that cannot be extended, i.e. that are not a proper prefix of another simple path from u
MaximalPaths(g, u) == LET P == SimplePaths(g, u) IN {q \in P : ~\E r \in P : IsProperPrefix(q, r)}

\* what the depth-first traversal of the type-inference feasibility check returns: everything reachable, source excluded
DfsTargets(g, s) == ReachSet(g, s) \ {s}

\* use-analysis helpers built on the above: is the designated "none" vertex z bi-reachable / connected
\* from some vertex bi-reachable / connected from u
NoneReachable(g, u, z) == \E v \in BiReachSet(g, u) : BiReach(g, v, z)
NoneConnected(g, u, z) == \E v \in ConnSet(g, u) : WeakConn(g, v, z)

\* ---- design-level sanity of the definitions themselves (checked by MC_HGraph) ----
ReachReflexive(g)  == \A u \in DOMAIN g : Reach(g, u, u)
ReachTransitive(g) == \A u, v, w \in DOMAIN g : Reach(g, u, v) /\ Reach(g, v, w) => Reach(g, u, w)
ConnSymmetric(g)   == \A u, v \in DOMAIN g : WeakConn(g, u, v) <=> WeakConn(g, v, u)
ReachIsPathEnd(g)  == \A u \in DOMAIN g : ReachSet(g, u) = {p[Len(p)] : p \in SimplePaths(g, u)}
MaximalCover(g)    == \A u \in DOMAIN g : UNION {ToSet(p) : p \in MaximalPaths(g, u)} = ReachSet(g, u)
SourcesAreRoots(g) == \A v \in DOMAIN g : (Sources(g, v) = {}) <=> (\A s \in ReachSet([x \in DOMAIN g |-> Pred(g, x)], v) : Pred(g, s) # {})
=============================================================================
