----------------------------- MODULE HUnifyGen -----------------------------
\* G step of C10: for every well-formed table of the HTypesGen family, the targets (ground universe) and a set of
\* pattern terms over the variables X, Y : Number, Z : A<X> (repeated, bounded, under projections, nested).
EXTENDS HTypesGen
vX == Var("X", <<>>)
vY == Var("Y", <<Num>>)
vZ == Var("Z", <<A(vX)>>)
Out(t) == Wild("out", <<t>>)
In(t) == Wild("in", <<t>>)
Patterns == {vX, vY, vZ, A(vX), A(vY), A(vZ), B(vX), B(vY), D(vX, vX), D(vX, vY), D(vY, vX), D(IntT, vX), D(vX, Str),
             A(Out(vX)), A(In(vX)), B(Out(vY)), D(Out(vX), vX), D(vX, In(vX)), A(A(vX)), A(B(vY)), B(A(Out(vX))), A(Star), CcT, A(IntT),
             D(vX, vZ), A(A(Out(vY)))}
EmitU == Good => PrintT(ToJson([id |-> p, ct |-> Table(p), order |-> Order, u |-> SetToSeq(Universe(Table(p), UDepth)), ps |-> SetToSeq(Patterns)]))
=============================================================================
