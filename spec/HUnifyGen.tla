----------------------------- MODULE HUnifyGen -----------------------------
\* G step of C10: for every well-formed table of the HTypesGen family, the targets (ground universe) and a set of
\* pattern terms over the variables X, Y : Number, Z : A<X> (repeated, bounded, under projections, nested).
EXTENDS HTypesGen
vX == Var("X", <<>>)
vY == Var("Y", <<Num>>)
vZ == Var("Z", <<A(vX)>>)
vI == Var("I", <<IntT>>)
Out(t) == Wild("out", <<t>>)
In(t) == Wild("in", <<t>>)
Patterns == {vX, vY, vZ, A(vX), A(vY), A(vZ), B(vX), B(vY), D(vX, vX), D(vX, vY), D(vY, vX), D(IntT, vX), D(vX, Str),
             A(Out(vX)), A(In(vX)), B(Out(vY)), D(Out(vX), vX), D(vX, In(vX)), A(A(vX)), A(B(vY)), B(A(Out(vX))), A(Star), CcT, A(IntT),
             D(vX, vZ), A(A(Out(vY))), D(vY, vY), D(vZ, vZ), D(vY, Out(vY)), B(B(vY)), vI, A(vI), D(vI, vY)}
\* targets that are, or contain, type variables of the surrounding scope (S : Number, R, Q : Int)
tS == Var("S", <<Num>>)
tR == Var("R", <<>>)
tQ == Var("Q", <<IntT>>)
VarTargets == {tS, tR, tQ, A(tS), A(tR), B(tQ), D(tS, tQ), D(tR, tR), A(Out(tS))}
EmitU == Good => PrintT(ToJson([id |-> p, ct |-> Table(p), order |-> Order, u |-> SetToSeq(Universe(Table(p), UDepth) \cup {t \in VarTargets : WF(Table(p), t)}), ps |-> SetToSeq(Patterns)]))
=============================================================================
