------------------------------- MODULE HDriver -------------------------------
\* The test driver of hephaestus.py (property C15): batches of programs, the compiler verdict on a batch, the oracle
\* decision table, the statistics and the files of a session.  One action per observable step of the code:
\*   GenProgram(p, o)  - gen_program returns for program id p with outcome o
\*   Check(b, crash)   - check_oracle returns for batch b (in worker-pool mode: in another process, concurrently with the
\*                       generation of later batches)
\*   Update(b)         - update_stats is applied for batch b (pool mode: the apply_async callback)
\*   EndSession        - run / run_parallel finish (pool closed and joined, tmp removed)
\* An outcome o = [kind, rp, rf]:  kind = "tool" (the tool failed before producing anything), "late" (the tool failed
\* after saving the expected-pass file), "pass" (only an expected-pass file), "both" (expected-pass and expected-fail
\* file);  rp / rf: the compiler reports an error for the expected-pass / expected-fail file.
EXTENDS Naturals, Sequences, FiniteSets

CONSTANTS BatchSize,      \* programs per batch (the last batch may be smaller)
          NProgs,         \* programs of the session (--iterations)
          Pool            \* TRUE: worker-pool mode (checks are asynchronous)

Kinds == {"tool", "late", "pass", "both"}
Outcome == {o \in [kind : Kinds, rp : BOOLEAN, rf : BOOLEAN] :
               (o.kind = "tool" => ~o.rp /\ ~o.rf) /\ (o.kind \in {"late", "pass"} => ~o.rf)}
Pids == 1..NProgs
NBatches == (NProgs + BatchSize - 1) \div BatchSize
BatchOf(p) == ((p - 1) \div BatchSize) + 1
PidsOf(b) == {p \in Pids : BatchOf(p) = b}

VARIABLES out,       \* pid |-> outcome, for the programs generated so far
          crash,     \* batch |-> did the compiler crash on it, for the batches checked so far
          phase,     \* batch |-> "gen" | "ready" | "checked" | "updated"
          passed, failed,
          faults,    \* pid |-> message class, as in faults.json
          fs,        \* files of the session: <<"tmp", p>>, <<"saved", p>>, <<"batch", b>>
          ended
vars == <<out, crash, phase, passed, failed, faults, fs, ended>>

\* ---- the decision table of C15, written once ------------------------------------------------------------------
ToolFailed(o) == o.kind \in {"tool", "late"}
Fault(o, cr) == ToolFailed(o) \/ cr \/ o.rp \/ (o.kind = "both" /\ ~o.rf)
\* acceptable message classes of a reported fault ("SHOULD NOT BE COMPILED" prefix = class "snc")
MsgClasses(o, cr) ==
  IF ToolFailed(o) THEN {"tool"}
  ELSE IF cr THEN {"crash"}
  ELSE (IF o.rp THEN {"compiler"} ELSE {}) \cup (IF o.kind = "both" /\ ~o.rf THEN {"snc"} ELSE {})
CompilerRelated(o, cr) == Fault(o, cr) /\ ~ToolFailed(o)
Reported(b) == {p \in PidsOf(b) : Fault(out[p], crash[b])}

Init == /\ out = [p \in {} |-> 0] /\ crash = [b \in {} |-> FALSE]
        /\ phase = [b \in 1..NBatches |-> "gen"]
        /\ passed = 0 /\ failed = 0 /\ faults = [p \in {} |-> ""] /\ fs = {} /\ ended = FALSE

\* a batch becomes ready when its last program is done
GenProgram(p, o) ==
  /\ ~ended /\ p \notin DOMAIN out
  \* sequential mode: id order, and the previous batch has been checked and counted; pool mode: the programs of a batch are
  \* generated concurrently, after every earlier batch has been generated completely
  /\ (~Pool => (\A q \in 1..(p - 1) : q \in DOMAIN out) /\ (\A b \in 1..(BatchOf(p) - 1) : phase[b] = "updated"))
  /\ (Pool => \A b \in 1..(BatchOf(p) - 1) : phase[b] # "gen")
  /\ out' = [q \in DOMAIN out \cup {p} |-> IF q = p THEN o ELSE out[q]]
  /\ fs' = fs \cup {<<"batch", BatchOf(p)>>} \cup (IF o.kind = "tool" THEN {} ELSE {<<"tmp", p>>})
  /\ phase' = IF PidsOf(BatchOf(p)) \subseteq DOMAIN out \cup {p} THEN [phase EXCEPT ![BatchOf(p)] = "ready"] ELSE phase
  /\ UNCHANGED <<crash, passed, failed, faults, ended>>

Check(b, cr) ==
  /\ phase[b] = "ready"
  /\ crash' = [c \in DOMAIN crash \cup {b} |-> IF c = b THEN cr ELSE crash[c]]
  /\ phase' = [phase EXCEPT ![b] = "checked"]
  /\ fs' = (fs \ ({<<"batch", b>>} \cup (IF cr THEN {} ELSE {<<"tmp", p>> : p \in {q \in PidsOf(b) : ~ToolFailed(out[q])}})))
           \cup {<<"saved", p>> : p \in {q \in PidsOf(b) : CompilerRelated(out[q], cr)}}
  /\ UNCHANGED <<out, passed, failed, faults, ended>>

Update(b) ==
  /\ phase[b] = "checked"
  /\ LET F == Reported(b) IN
     /\ failed' = failed + Cardinality(F)
     /\ passed' = passed + Cardinality(PidsOf(b)) - Cardinality(F)
     /\ \E cls \in [F -> {"tool", "crash", "compiler", "snc"}] :
           /\ \A p \in F : cls[p] \in MsgClasses(out[p], crash[b])
           /\ faults' = [p \in DOMAIN faults \cup F |-> IF p \in F THEN cls[p] ELSE faults[p]]
  /\ phase' = [phase EXCEPT ![b] = "updated"]
  /\ UNCHANGED <<out, crash, fs, ended>>

EndSession ==
  /\ ~ended /\ \A b \in 1..NBatches : phase[b] = "updated"
  /\ ended' = TRUE
  /\ fs' = {x \in fs : x[1] = "saved"}
  /\ UNCHANGED <<out, crash, phase, passed, failed, faults>>

Next == \/ \E p \in Pids, o \in Outcome : GenProgram(p, o)
        \/ \E b \in 1..NBatches, cr \in BOOLEAN : Check(b, cr)
        \/ \E b \in 1..NBatches : Update(b)
        \/ EndSession
Spec == Init /\ [][Next]_vars /\ WF_vars(Next)

\* ---- properties ---------------------------------------------------------------------------------------------------
Processed == UNION {PidsOf(b) : b \in {c \in 1..NBatches : phase[c] = "updated"}}
Totals == /\ passed + failed = Cardinality(Processed)
          /\ failed = Cardinality(DOMAIN faults)
          /\ DOMAIN faults = {p \in Processed : Fault(out[p], crash[BatchOf(p)])}
NoLeftovers == ended => fs = {<<"saved", p>> : p \in {q \in Pids : CompilerRelated(out[q], crash[BatchOf(q)])}}
SavedOnlyFaults == \A x \in fs : x[1] = "saved" => CompilerRelated(out[x[2]], crash[BatchOf(x[2])])
CountersMonotone == [][passed' >= passed /\ failed' >= failed /\ DOMAIN faults \subseteq DOMAIN faults']_vars
Terminates == <>ended
=============================================================================
