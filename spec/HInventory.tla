------------------------------ MODULE HInventory ------------------------------
\* What a translation must contain (property C12): from the abstract program (the walk of HTyping) the spec computes how often
\* each declaration fact must occur in the emitted text; the harness counts the corresponding textual patterns (one regular
\* pattern per fact kind and language, harness/scan.py) and TLC compares.  Facts:
\*   class C            every class of the program is declared exactly once
\*   fun f              as many function headers named f as the program has functions named f        (Kotlin, Scala)
\*   var_typed x        as many declarations "x : T" as the program has variable / field declarations of x that carry a type
\*   var_untyped x      as many declarations of x without a type as the program has declarations of x whose type was omitted
\*   new_inferred C     as many constructor calls of the generic class C without explicit type arguments as the program has such
\*                      calls flagged inferable (so an erased annotation is really absent, an explicit one really present)
\*   fun_tparam f T     as many headers of functions named f declare a type parameter T as the program has such functions  (Kotlin, Scala)
\*   class_tparam C T   the header of class C declares its type parameter T (all four languages)
\*   str s              every string literal of the program appears (as often as in the program)
\*   balanced           brackets, braces and parentheses are balanced outside literals
\*   call_targs f       as many calls of f with explicit type arguments f<..>(..) as the program has calls of f that carry type arguments
\*                      not flagged inferable (Kotlin, Scala; Java and Groovy never print them - not judged)
\* "at least" facts (the text may contain more, e.g. the 0 of an empty array, the brackets of generic types):
\*   lit v              every numeric literal of the program appears (v = its absolute value as written)
\*   op o               every binary operator of the program appears
\*   param x            every parameter (of functions and lambdas) appears under its name
EXTENDS Naturals, Sequences, FiniteSets
Count(S) == Cardinality(S)
Ev(P) == P.ev
Idx(P, pred(_)) == {j \in DOMAIN P.ev : pred(P.ev[j])}

\* nesting depth of event j in the walk (0 = a top-level declaration)
Depth(P, j) == Count({i \in 1..(j - 1) : P.ev[i].ev = "Enter"}) - Count({i \in 1..(j - 1) : P.ev[i].ev = "Exit"})
NoRet(sig) == sig.declared_ret = <<>> \/ (sig.declared_ret[1].k = "C" /\ sig.declared_ret[1].n = "Void")
IsGeneric(P, c) == c \in DOMAIN P.ct /\ P.ct[c].tp # <<>>
\* which fact kinds a language expresses (the others are not judged for it)
Expresses(lang, kind) ==
  CASE kind \in {"class", "str", "balanced", "new_inferred"} -> TRUE
    [] kind = "fun" -> lang \in {"kotlin", "scala"}
    [] kind = "var_typed" -> lang \in {"kotlin", "scala"}
    [] kind = "var_untyped" -> lang \in {"kotlin", "scala"}
    \* Java and Groovy print top-level variables as static fields of a wrapper class: judged separately from local ones
    \* (a Java field cannot omit its type - not judged; a Java local can: "var")
    [] kind = "var_untyped_local" -> lang \in {"java", "groovy"}
    [] kind = "var_untyped_top" -> lang = "groovy"
    \* Groovy prints a local function as a closure: "def f = { .. }" when it declares no (or a void) return type, "Closure<T> f = { .. }" otherwise
    [] kind \in {"closure_untyped", "closure_typed"} -> lang = "groovy"
    [] kind = "call_targs" -> lang \in {"kotlin", "scala"}
    [] kind \in {"lit", "op", "param"} -> TRUE
    [] OTHER -> FALSE

Expected(P, kind, name) ==
  CASE kind = "class" -> Count(Idx(P, LAMBDA e : e.ev = "Enter" /\ e.kind = "Class" /\ e.name = name))
    [] kind = "fun" -> Count(Idx(P, LAMBDA e : e.ev = "Enter" /\ e.kind = "Fun" /\ e.name = name))
    [] kind = "var_typed" -> Count(Idx(P, LAMBDA e : e.ev = "VarDecl" /\ e.name = name /\ e.vt # <<>>))
                             + Count(Idx(P, LAMBDA e : e.ev = "FieldDecl" /\ e.name = name))
    [] kind = "var_untyped" -> Count(Idx(P, LAMBDA e : e.ev = "VarDecl" /\ e.name = name /\ e.vt = <<>>))
    [] kind = "var_untyped_top" -> Count({j \in Idx(P, LAMBDA e : e.ev = "VarDecl" /\ e.name = name /\ e.vt = <<>>) : Depth(P, j) = 0})
    [] kind = "var_untyped_local" -> Count({j \in Idx(P, LAMBDA e : e.ev = "VarDecl" /\ e.name = name /\ e.vt = <<>>) : Depth(P, j) > 0})
    [] kind = "closure_untyped" -> Count(Idx(P, LAMBDA e : e.ev = "Exit" /\ e.kind = "Fun" /\ e.name = name /\ e.owner = "local" /\ NoRet(e.sig)))
    [] kind = "closure_typed" -> Count(Idx(P, LAMBDA e : e.ev = "Exit" /\ e.kind = "Fun" /\ e.name = name /\ e.owner = "local" /\ ~NoRet(e.sig)))
    [] kind = "new_inferred" -> Count(Idx(P, LAMBDA e : e.ev = "New" /\ e.t.n = name /\ e.t.a # <<>> /\ e.infer))
    [] kind = "str" -> Count(Idx(P, LAMBDA e : e.ev = "Const" /\ e.lit = "string" /\ e.text = name))
    [] kind = "balanced" -> 1
    [] kind = "call_targs" -> Count(Idx(P, LAMBDA e : e.ev = "Call" /\ e.name = name /\ e.targs # <<>> /\ ~e.infer))
    [] kind = "lit" -> Count(Idx(P, LAMBDA e : e.ev = "Const" /\ e.lit \in {"int", "real"} /\ e.abs = name))
    [] kind = "op" -> Count(Idx(P, LAMBDA e : e.ev = "BinOp" /\ e.op = name))
    [] kind = "param" -> Count(Idx(P, LAMBDA e : e.ev = "ParamDecl" /\ e.name = name))
    [] OTHER -> 0
\* how the measured count is compared with the expected one
AtLeast(kind) == kind \in {"lit", "op", "param"}
Differs(kind, exp, got) == IF AtLeast(kind) THEN got < exp ELSE got # exp
\* the probes of a program: <<kind, name>> for every name the program declares / uses in that role
Probes(P) ==
       {<<"class", P.ev[j].name>> : j \in Idx(P, LAMBDA e : e.ev = "Enter" /\ e.kind = "Class")}
  \cup {<<"fun", P.ev[j].name>> : j \in Idx(P, LAMBDA e : e.ev = "Enter" /\ e.kind = "Fun")}
  \cup {<<"var_typed", P.ev[j].name>> : j \in Idx(P, LAMBDA e : e.ev \in {"VarDecl", "FieldDecl"})}
  \cup {<<"var_untyped", P.ev[j].name>> : j \in Idx(P, LAMBDA e : e.ev = "VarDecl")}
  \cup {<<"var_untyped_top", P.ev[j].name>> : j \in {i \in Idx(P, LAMBDA e : e.ev = "VarDecl") : Depth(P, i) = 0}}
  \cup {<<"var_untyped_local", P.ev[j].name>> : j \in {i \in Idx(P, LAMBDA e : e.ev = "VarDecl") : Depth(P, i) > 0}}
  \cup {<<"closure_untyped", P.ev[j].name>> : j \in Idx(P, LAMBDA e : e.ev = "Exit" /\ e.kind = "Fun" /\ e.owner = "local")}
  \cup {<<"closure_typed", P.ev[j].name>> : j \in Idx(P, LAMBDA e : e.ev = "Exit" /\ e.kind = "Fun" /\ e.owner = "local")}
  \cup {<<"new_inferred", P.ev[j].t.n>> : j \in Idx(P, LAMBDA e : e.ev = "New" /\ e.t.a # <<>>)}
  \cup {<<"str", P.ev[j].text>> : j \in Idx(P, LAMBDA e : e.ev = "Const" /\ e.lit = "string")}
  \cup {<<"balanced", "">>}
  \cup {<<"call_targs", P.ev[j].name>> : j \in Idx(P, LAMBDA e : e.ev = "Call" /\ e.targs # <<>>)}
  \cup {<<"lit", P.ev[j].abs>> : j \in Idx(P, LAMBDA e : e.ev = "Const" /\ e.lit \in {"int", "real"})}
  \cup {<<"op", P.ev[j].op>> : j \in Idx(P, LAMBDA e : e.ev = "BinOp")}
  \cup {<<"param", P.ev[j].name>> : j \in Idx(P, LAMBDA e : e.ev = "ParamDecl")}
\* ---- type-parameter declarations (probes with two names: owner, parameter) -----------------------------------------------------
ExpressesT(lang, kind) == IF kind = "fun_tparam" THEN lang \in {"kotlin", "scala"} ELSE kind = "class_tparam"
OwnerKind(kind) == IF kind = "fun_tparam" THEN "Fun" ELSE "Class"
ExpectedT(P, kind, owner, tparam) ==
  Count(Idx(P, LAMBDA e : e.ev = "Enter" /\ e.kind = OwnerKind(kind) /\ e.name = owner /\ \E q \in DOMAIN e.tps : e.tps[q].n = tparam))
TProbes(P) == UNION {{<<IF P.ev[j].kind = "Fun" THEN "fun_tparam" ELSE "class_tparam", P.ev[j].name, P.ev[j].tps[q].n>> : q \in DOMAIN P.ev[j].tps} :
                       j \in Idx(P, LAMBDA e : e.ev = "Enter" /\ e.kind \in {"Fun", "Class"})}
=============================================================================
