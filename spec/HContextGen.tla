---------------------------- MODULE HContextGen ----------------------------
\* MC + G step of C16.  TLC explores the symbol-table model over a small alphabet of operations.  `hist` (one
\* shortest history reaching the state) is hidden from the fingerprint by VIEW, so every *distinct table state*
\* is visited once and every transition out of it is printed (ACTION_CONSTRAINT EmitStep): one implementation
\* test per model transition.  The design invariants of HContext are checked on the same run.
EXTENDS HContext, TLC, Json

CONSTANTS Names, GenKinds, Vers, MaxLen
VARIABLE hist

\* named namespace sets (cfg: NSs <- NS_Shadow etc.)
NS_Shadow == {<<"g">>, <<"g", "f">>, <<"g", "f", "b">>}
NS_Flat   == {<<"g">>, <<"g", "C">>}
NS_Tree   == {<<"g">>, <<"g", "f">>, <<"g", "C">>, <<"g", "C", "m">>}
NS_All    == {<<"g">>, <<"g", "f">>, <<"g", "f", "b">>, <<"g", "C">>, <<"g", "C", "m">>, <<"g", "C", "m", "b">>}
ValAll == NS_All \X Kinds \X Names \X Vers

\* identifiers of one namespace are unique among functions, variables and classes (C05's FreshInScope):
\* a name is never used for two different mirrored kinds in the same namespace
AddAllowed(ns, k, n) == k \in Mirrored => \A k2 \in Mirrored \ {k} : ~Has(ctx[ns][k2], n)

GInit == Init /\ hist = <<>>
GAdd == \E ns \in NSs, k \in GenKinds, n \in Names, ver \in Vers :
          /\ AddAllowed(ns, k, n)
          /\ ctx' = CtxAfterAdd(ctx, ns, k, n, <<ns, k, n, ver>>)
          /\ rev' = RevAfterAdd(rev, ns, <<ns, k, n, ver>>)
          /\ hist' = Append(hist, [op |-> "add", ns |-> ns, k |-> k, n |-> n, ver |-> ver])
GRemove == \E ns \in NSs, k \in GenKinds, n \in Names :
          /\ AddAllowed(ns, k, n)          \* the same discipline: remove_var is not called on a function's name
          /\ ctx' = CtxAfterRemove(ctx, ns, k, n)
          /\ rev' = RevAfterRemove(ctx, rev, ns, k, n)
          /\ hist' = Append(hist, [op |-> "rem", ns |-> ns, k |-> k, n |-> n, ver |-> 0])
GNext == GAdd \/ GRemove
GView == <<ctx, rev>>
Bound == Len(hist) < MaxLen
EmitStep == PrintT(ToJson(hist'))
\* for -simulate: print the history at the end of each behaviour only
EmitLast == Len(hist) = MaxLen - 1 => PrintT(ToJson(hist'))

\* the composed public steps equal the pure-function forms used above
ComposeOK == \A ns \in NSs, k \in GenKinds, n \in Names :
   /\ CtxAfterRemove(CtxAfterAdd(ctx, ns, k, n, <<ns, k, n, 1>>), ns, k, n) = CtxAfterRemove(ctx, ns, k, n)
   /\ (AddAllowed(ns, k, n) => Lookup(CtxAfterAdd(ctx, ns, k, n, <<ns, k, n, 1>>), ns, n)
                                 = IF k \in Mirrored THEN <<ns, <<ns, k, n, 1>>>> ELSE Lookup(ctx, ns, n))
=============================================================================
