----------------------------- MODULE HGraphGen -----------------------------
(* G step of C19: TLC enumerates every digraph on 1..N (INIT InitAll) or grows random digraphs edge by edge *)
(* (INIT InitEmpty, NEXT AddEdge, -simulate).  Each visited graph is printed once as a JSON line; the     *)
(* design-level sanity properties of HGraph are invariants of the same runs.                              *)
EXTENDS HGraph, TLC, Json
CONSTANT N
VARIABLE g
V == 1..N
InitAll == g \in [V -> SUBSET V]
InitEmpty == g = [x \in V |-> {}]
AddEdge == \E u, v \in V : v \notin g[u] /\ g' = [g EXCEPT ![u] = @ \cup {v}]
Stutter == UNCHANGED g
Emit == PrintT(ToJson([n |-> N, g |-> g]))
Sane == /\ ReachReflexive(g) /\ ReachTransitive(g) /\ ConnSymmetric(g) /\ ReachIsPathEnd(g) /\ MaximalCover(g) /\ SourcesAreRoots(g)
=============================================================================
