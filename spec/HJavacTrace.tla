------------------------------ MODULE HJavacTrace ------------------------------
EXTENDS HJavac, IOUtils
Runs == JsonDeserialize(IOEnv.TRACE_FILE).runs
VARIABLES t, l, bad
TInit == Init /\ t \in DOMAIN Runs /\ l = 0 /\ bad = {}
TNext == /\ l < Len(Runs[t].events) /\ l' = l + 1 /\ t' = t
         /\ LET e == Runs[t].events[l + 1]  failed == ToSet(e.failed)  exp == ToSet(Runs[t].expect_pass) IN
            /\ Compile(e.batch, failed \cap ToSet(e.batch))
            /\ bad' = bad \cup {<<l + 1, "PassOracle", f>> : f \in PassOracleBad(e.batch, failed, exp)}
                          \cup {<<l + 1, "BatchIndependent", f>> : f \in BatchIndependentBad(e.batch, failed)}
                          \cup (IF e.crash THEN {<<l + 1, "CompilerCrash", 0>>} ELSE {})
                          \cup {<<l + 1, "UnknownFile", f>> : f \in failed \ ToSet(e.batch)}
AtEnd == l = Len(Runs[t].events) => PrintT(ToJson([run |-> Runs[t].id, bad |-> bad]))
=============================================================================
